//! loomcheck — controlled-scheduler exploration (loom) of the real knowledge_base.rs / facts.rs /
//! parallel.rs, compiled with `--cfg rre_verif_loom` so their std::sync / std::thread imports are loom's.
//!
//!   loomcheck C15|C19 --tier quick|thorough --out FILE        parent: one child process per model
//!   loomcheck --child C15|C19 <model index> <bound> <outfile>  one loom::model run
#[path = "../../harness/src/report.rs"]
#[allow(dead_code)]
mod report;

use report::{hmix, hstr, Report, Violation};
use rust_rule_engine::engine::facts::Facts;
use rust_rule_engine::engine::knowledge_base::KnowledgeBase;
use rust_rule_engine::engine::parallel::{ParallelConfig, ParallelRuleEngine};
use rust_rule_engine::engine::rule::{Condition, ConditionGroup, Rule};
use rust_rule_engine::types::{ActionType, Operator, Value};
use serde_json::{json, Value as J};
use std::collections::{BTreeSet, HashSet};
use std::sync::atomic::{AtomicU64, AtomicUsize, Ordering};
use std::sync::Mutex as StdMutex;
use std::time::Instant;

static SCHEDULES: AtomicU64 = AtomicU64::new(0);
static OVERLAPPING: AtomicU64 = AtomicU64::new(0);
static CALLS: AtomicU64 = AtomicU64::new(0);
static OUTCOMES: StdMutex<Option<HashSet<u64>>> = StdMutex::new(None);
static FAILURE: StdMutex<Option<J>> = StdMutex::new(None);

fn outcome(h: u64) {
    let mut g = OUTCOMES.lock().unwrap();
    g.get_or_insert_with(HashSet::new).insert(h);
}

// ------------------------------------------------------------------------------------------------
// C15 (b): linearizability of concurrent knowledge-base histories

#[derive(Clone, Debug, PartialEq)]
enum Call {
    Add(&'static str, i32),
    Remove(&'static str),
    SetEn(&'static str, bool),
    Clear,
    Get(&'static str),
    List,
    Names,
    Count,
    Version,
    Stats,
}

type R3 = (String, i32, bool);

#[derive(Clone, Debug, PartialEq)]
enum Ret {
    AddOk,
    AddDup,
    Bool(bool),
    Unit,
    Rule(Option<R3>),
    List(Vec<R3>),
    Names(BTreeSet<String>),
    Count(usize),
    Version(u64),
    Stats(usize, usize, u64),
}

#[derive(Clone, Debug)]
struct Event {
    thread: usize,
    call: Call,
    ret: Ret,
    t_call: usize,
    t_ret: usize,
}

#[derive(Clone, Debug)]
struct Model {
    rules: Vec<R3>,
    vmin: u64,
    vmax: u64,
}

fn mk_rule(name: &str, salience: i32) -> Rule {
    Rule::new(
        name.to_string(),
        ConditionGroup::single(Condition::new("X.v".to_string(), Operator::Equal, Value::Integer(1))),
        vec![ActionType::Set { field: "X.w".to_string(), value: Value::Integer(salience as i64) }],
    )
    .with_salience(salience)
}

fn r3(r: &Rule) -> R3 {
    (r.name.clone(), r.salience, r.enabled)
}

fn do_call(kb: &KnowledgeBase, c: &Call) -> Ret {
    match c {
        Call::Add(n, s) => match kb.add_rule(mk_rule(n, *s)) {
            Ok(()) => Ret::AddOk,
            Err(_) => Ret::AddDup,
        },
        Call::Remove(n) => Ret::Bool(kb.remove_rule(n).unwrap_or(false)),
        Call::SetEn(n, b) => Ret::Bool(kb.set_rule_enabled(n, *b).unwrap_or(false)),
        Call::Clear => {
            kb.clear();
            Ret::Unit
        }
        Call::Get(n) => Ret::Rule(kb.get_rule(n).map(|r| r3(&r))),
        Call::List => Ret::List(kb.get_rules().iter().map(r3).collect()),
        Call::Names => Ret::Names(kb.get_rule_names().into_iter().collect()),
        Call::Count => Ret::Count(kb.rule_count()),
        Call::Version => Ret::Version(kb.version()),
        Call::Stats => {
            let s = kb.get_statistics();
            Ret::Stats(s.total_rules, s.enabled_rules, s.version)
        }
    }
}

/// sequential specification: Some(next model) iff `ret` is what the call may return in `m`
fn apply(m: &Model, c: &Call, ret: &Ret) -> Option<Model> {
    let mut n = m.clone();
    match (c, ret) {
        (Call::Add(name, s), Ret::AddOk) => {
            if m.rules.iter().any(|r| r.0 == *name) {
                return None;
            }
            let pos = n.rules.iter().position(|x| x.1 < *s).unwrap_or(n.rules.len());
            n.rules.insert(pos, (name.to_string(), *s, true));
            n.vmin += 1;
            n.vmax += 1;
            Some(n)
        }
        (Call::Add(name, _), Ret::AddDup) => m.rules.iter().any(|r| r.0 == *name).then_some(n),
        (Call::Remove(name), Ret::Bool(b)) => {
            let present = m.rules.iter().any(|r| r.0 == *name);
            if present != *b {
                return None;
            }
            n.rules.retain(|r| r.0 != *name);
            if present {
                n.vmin += 1;
                n.vmax += 1;
            }
            Some(n)
        }
        (Call::SetEn(name, en), Ret::Bool(b)) => {
            let present = m.rules.iter().any(|r| r.0 == *name);
            if present != *b {
                return None;
            }
            for r in n.rules.iter_mut() {
                if r.0 == *name {
                    if r.2 != *en {
                        n.vmin += 1;
                    }
                    n.vmax += 1;
                    r.2 = *en;
                }
            }
            Some(n)
        }
        (Call::Clear, Ret::Unit) => {
            if !n.rules.is_empty() {
                n.vmin += 1;
            }
            n.vmax += 1;
            n.rules.clear();
            Some(n)
        }
        (Call::Get(name), Ret::Rule(r)) => (m.rules.iter().find(|x| x.0 == *name).cloned() == *r).then_some(n),
        (Call::List, Ret::List(l)) => (*l == m.rules).then_some(n),
        (Call::Names, Ret::Names(s)) => (*s == m.rules.iter().map(|r| r.0.clone()).collect::<BTreeSet<_>>()).then_some(n),
        (Call::Count, Ret::Count(k)) => (*k == m.rules.len()).then_some(n),
        (Call::Version, Ret::Version(v)) => (*v >= m.vmin && *v <= m.vmax).then_some(n),
        (Call::Stats, Ret::Stats(t, e, v)) => (*t == m.rules.len() && *e == m.rules.iter().filter(|r| r.2).count() && *v >= m.vmin && *v <= m.vmax).then_some(n),
        _ => None,
    }
}

/// Wing–Gong: is there a total order of the events, consistent with real time, that the sequential
/// specification accepts?
fn linearizable(m: &Model, events: &[Event], done: &mut Vec<bool>) -> bool {
    if done.iter().all(|d| *d) {
        return true;
    }
    let min_ret = events.iter().zip(done.iter()).filter(|(_, d)| !**d).map(|(e, _)| e.t_ret).min().unwrap();
    for i in 0..events.len() {
        if done[i] || events[i].t_call > min_ret {
            continue;
        }
        if let Some(n) = apply(m, &events[i].call, &events[i].ret) {
            done[i] = true;
            if linearizable(&n, events, done) {
                done[i] = false;
                return true;
            }
            done[i] = false;
        }
    }
    false
}

fn c15_menus() -> Vec<(String, Vec<Vec<Call>>)> {
    use Call::*;
    let writers: Vec<(&str, Vec<Call>)> = vec![
        ("addC_removeC", vec![Add("C", 5), Remove("C")]),
        ("removeA_addA", vec![Remove("A"), Add("A", 0)]),
        ("disableA_disableB", vec![SetEn("A", false), SetEn("B", false)]),
        ("clear_addB", vec![Clear, Add("B", 5)]),
        ("addC9_disableC", vec![Add("C", 9), SetEn("C", false)]),
        ("removeB_removeA", vec![Remove("B"), Remove("A")]),
        ("addAdup_enableA", vec![Add("A", 7), SetEn("A", true)]),
    ];
    let readers: Vec<(&str, Vec<Call>)> = vec![
        ("getA_getB_getC", vec![Get("A"), Get("B"), Get("C")]),
        ("list_count_version", vec![List, Count, Version]),
        ("names_stats_getA", vec![Names, Stats, Get("A")]),
    ];
    let mut menus = vec![];
    for i in 0..writers.len() {
        for j in i + 1..writers.len() {
            for r in &readers {
                menus.push((format!("{}|{}|{}", writers[i].0, writers[j].0, r.0), vec![writers[i].1.clone(), writers[j].1.clone(), r.1.clone()]));
            }
        }
    }
    // three writers, verdict from the final sequential observation
    for (a, b, c) in [(0, 1, 3), (0, 2, 5), (1, 3, 4), (2, 4, 5), (1, 5, 6), (3, 4, 6)] {
        menus.push((format!("{}|{}|{}", writers[a].0, writers[b].0, writers[c].0), vec![writers[a].1.clone(), writers[b].1.clone(), writers[c].1.clone()]));
    }
    // longer single-kind collisions (4 calls per thread)
    menus.push(("4x_add_remove_same_name".to_string(), vec![vec![Add("C", 5), Remove("C"), Add("C", 0), Remove("C")], vec![Add("C", 9), Remove("C"), Add("C", 5), Get("C")], vec![Get("C"), List, Get("C"), Count]]));
    menus.push(("4x_toggle_vs_readers".to_string(), vec![vec![SetEn("A", false), SetEn("A", true), SetEn("B", false), SetEn("B", true)], vec![Remove("A"), Add("A", 5), Remove("B"), Add("B", 0)], vec![Stats, Get("A"), Stats, Get("B")]]));
    menus
}

fn run_c15(menu_idx: usize, bound: Option<usize>) {
    let menus = c15_menus();
    let (name, menu) = menus[menu_idx].clone();
    let mut b = loom::model::Builder::new();
    b.preemption_bound = bound;
    b.max_branches = 200_000;
    let name2 = name.clone();
    b.check(move || {
        let kb = loom::sync::Arc::new(KnowledgeBase::new("kb"));
        kb.add_rule(mk_rule("A", 5)).unwrap();
        kb.add_rule(mk_rule("B", 0)).unwrap();
        let v0 = kb.version();
        let tick = std::sync::Arc::new(AtomicUsize::new(0));
        let hist: std::sync::Arc<StdMutex<Vec<Event>>> = std::sync::Arc::new(StdMutex::new(Vec::new()));
        let mut hs = vec![];
        for (t, calls) in menu.iter().cloned().enumerate() {
            let kb = kb.clone();
            let tick = tick.clone();
            let hist = hist.clone();
            hs.push(loom::thread::spawn(move || {
                for c in calls {
                    let t_call = tick.fetch_add(1, Ordering::SeqCst);
                    let ret = do_call(&kb, &c);
                    let t_ret = tick.fetch_add(1, Ordering::SeqCst);
                    hist.lock().unwrap().push(Event { thread: t, call: c, ret, t_call, t_ret });
                }
            }));
        }
        for h in hs {
            h.join().unwrap();
        }
        // final sequential observation by the main thread
        let mut events = hist.lock().unwrap().clone();
        for c in [Call::List, Call::Get("A"), Call::Get("B"), Call::Get("C"), Call::Names, Call::Count, Call::Version] {
            let t_call = tick.fetch_add(1, Ordering::SeqCst);
            let ret = do_call(&kb, &c);
            let t_ret = tick.fetch_add(1, Ordering::SeqCst);
            events.push(Event { thread: 9, call: c, ret, t_call, t_ret });
        }
        let init = Model { rules: vec![("A".to_string(), 5, true), ("B".to_string(), 0, true)], vmin: v0, vmax: v0 };
        let mut done = vec![false; events.len()];
        SCHEDULES.fetch_add(1, Ordering::SeqCst);
        CALLS.fetch_add(events.len() as u64, Ordering::SeqCst);
        let overl = events.iter().any(|a| events.iter().any(|b| a.thread != b.thread && a.thread != 9 && b.thread != 9 && a.t_call < b.t_ret && b.t_call < a.t_ret));
        if overl {
            OVERLAPPING.fetch_add(1, Ordering::SeqCst);
        }
        let mut oh = 0u64;
        let mut sorted = events.clone();
        sorted.sort_by_key(|e| (e.thread, e.t_call));
        for e in &sorted {
            oh = hmix(oh, hstr(&format!("{}{:?}{:?}", e.thread, e.call, e.ret)));
        }
        outcome(oh);
        if !linearizable(&init, &events, &mut done) {
            let mut ev = events.clone();
            ev.sort_by_key(|e| e.t_call);
            let rendered: Vec<String> = ev.iter().map(|e| format!("T{} [{}..{}] {:?} -> {:?}", e.thread, e.t_call, e.t_ret, e.call, e.ret)).collect();
            *FAILURE.lock().unwrap() = Some(json!({"class": "not_linearizable", "menu": name2, "history": rendered}));
            panic!("NOT LINEARIZABLE: {:?}", rendered);
        }
    });
}

// ------------------------------------------------------------------------------------------------
// C19 (a): execute_parallel agrees with sequential evaluation on every schedule

fn c19_rule(i: usize, salience: i32) -> Rule {
    let cond = match i % 6 {
        0 => ConditionGroup::single(Condition::new("X.a".to_string(), Operator::GreaterThan, Value::Integer(5))),
        1 => ConditionGroup::single(Condition::new("X.a".to_string(), Operator::LessThan, Value::Integer(5))),
        2 => ConditionGroup::and(
            ConditionGroup::single(Condition::new("X.s".to_string(), Operator::Equal, Value::String("vip".to_string()))),
            ConditionGroup::single(Condition::new("X.a".to_string(), Operator::GreaterThanOrEqual, Value::Integer(10))),
        ),
        3 => ConditionGroup::not(ConditionGroup::single(Condition::new("X.b".to_string(), Operator::Equal, Value::Boolean(true)))),
        4 => ConditionGroup::single(Condition::with_function("isBig".to_string(), vec!["X.a".to_string()], Operator::Equal, Value::Boolean(true))),
        _ => ConditionGroup::or(
            ConditionGroup::single(Condition::new("X.missing".to_string(), Operator::Equal, Value::Integer(1))),
            ConditionGroup::single(Condition::new("X.a".to_string(), Operator::NotEqual, Value::Integer(10))),
        ),
    };
    Rule::new(format!("R{}", i), cond, vec![ActionType::Set { field: format!("Out.r{}", i), value: Value::Boolean(true) }]).with_salience(salience)
}

/// (rules, first rule index, max_threads, min_rules_per_thread, salience pattern)
fn c19_configs() -> Vec<(String, usize, usize, usize, usize, Vec<i32>)> {
    let mut v = vec![];
    for (n, first, mt, mr, sal) in [
        (2usize, 0usize, 2usize, 1usize, vec![0, 0]),
        (2, 3, 2, 2, vec![5, 5]),
        (3, 0, 2, 1, vec![0, 0, 0]),
        (3, 2, 3, 1, vec![0, 0, 0]),
        (3, 3, 3, 1, vec![1, 1, 0]),
        (4, 0, 2, 1, vec![0, 0, 0, 0]),
        (4, 1, 3, 2, vec![0, 0, 0, 0]),
        (4, 2, 4, 1, vec![0, 0, 0, 0]),
        (4, 0, 4, 1, vec![2, 2, 0, 0]),
        (5, 1, 2, 2, vec![0, 0, 0, 0, 0]),
        (6, 0, 3, 1, vec![0, 0, 0, 0, 0, 0]),
        (6, 0, 2, 3, vec![1, 1, 1, 0, 0, 0]),
    ] {
        v.push((format!("rules{}_from{}_threads{}_min{}_sal{:?}", n, first, mt, mr, sal), n, first, mt, mr, sal));
    }
    v
}

/// most workers any salience level of the configuration spawns
fn c19_workers(idx: usize) -> usize {
    let (_, _n, _first, mt, mr, sal) = c19_configs()[idx].clone();
    let mut levels: std::collections::BTreeMap<i32, usize> = std::collections::BTreeMap::new();
    for s in sal {
        *levels.entry(s).or_insert(0) += 1;
    }
    levels
        .values()
        .map(|&k| if k >= mr && k >= 2 { let chunk = k.div_ceil(mt); k.div_ceil(chunk) } else { 0 })
        .max()
        .unwrap_or(0)
}

/// preemption bound per model: the more workers, the smaller the bound that completes
fn model_bound(prop: &str, k: usize, tier: &str) -> Option<usize> {
    if prop == "C15" {
        return Some(if tier == "thorough" { 5 } else { 3 });
    }
    let w = c19_workers(k);
    match (tier, w) {
        // (unbounded exploration of the two-worker models did not finish within an hour)
        ("thorough", 0..=2) => Some(6),
        ("thorough", 3) => Some(4),
        ("thorough", _) => Some(3),
        (_, 0..=2) => Some(4),
        (_, 3) => Some(3),
        _ => Some(2),
    }
}

fn run_c19(idx: usize, bound: Option<usize>) {
    let cfgs = c19_configs();
    let (name, n, first, mt, mr, sal) = cfgs[idx].clone();
    let mut b = loom::model::Builder::new();
    b.preemption_bound = bound;
    b.max_branches = 500_000;
    b.check(move || {
        let kb = KnowledgeBase::new("kb");
        for i in 0..n {
            kb.add_rule(c19_rule(first + i, sal[i])).unwrap();
        }
        let mk_facts = || {
            let f = Facts::new();
            let mut x = std::collections::HashMap::new();
            x.insert("a".to_string(), Value::Integer(10));
            x.insert("s".to_string(), Value::String("vip".to_string()));
            x.insert("b".to_string(), Value::Boolean(false));
            f.set("X", Value::Object(x));
            f
        };
        let mk_engine = |enabled: bool| {
            let mut e = ParallelRuleEngine::new(ParallelConfig { enabled, max_threads: mt, min_rules_per_thread: mr, dependency_analysis: false });
            e.register_function("isBig", |args: &[Value], _f: &Facts| Ok(Value::Boolean(matches!(args.first(), Some(Value::Integer(i)) if *i > 5))));
            e
        };
        let seq = mk_engine(false).execute_parallel(&kb, &mk_facts(), false).expect("sequential execution failed");
        let par = mk_engine(true).execute_parallel(&kb, &mk_facts(), false);
        SCHEDULES.fetch_add(1, Ordering::SeqCst);
        let par = match par {
            Ok(p) => p,
            Err(e) => {
                *FAILURE.lock().unwrap() = Some(json!({"class": "parallel_execution_failed", "config": name, "detail": format!("{:?}", e)}));
                panic!("parallel execution failed: {:?}", e);
            }
        };
        let set = |r: &rust_rule_engine::engine::parallel::ParallelExecutionResult| -> (BTreeSet<(String, bool)>, usize) { (r.execution_contexts.iter().map(|c| (c.rule.name.clone(), c.fired)).collect(), r.execution_contexts.len()) };
        let order: Vec<String> = par.execution_contexts.iter().map(|c| c.rule.name.clone()).collect();
        outcome(hstr(&format!("{:?}", order)));
        CALLS.fetch_add(par.execution_contexts.len() as u64, Ordering::SeqCst);
        let (ps, pn) = set(&par);
        let (ss, sn) = set(&seq);
        if ps != ss || pn != sn || par.total_rules_evaluated != seq.total_rules_evaluated || par.total_rules_fired != seq.total_rules_fired || pn != n {
            *FAILURE.lock().unwrap() = Some(json!({"class": "parallel_differs_from_sequential", "config": name,
                "parallel": {"contexts": format!("{:?}", par.execution_contexts.iter().map(|c| (c.rule.name.clone(), c.fired)).collect::<Vec<_>>()), "evaluated": par.total_rules_evaluated, "fired": par.total_rules_fired},
                "sequential": {"contexts": format!("{:?}", seq.execution_contexts.iter().map(|c| (c.rule.name.clone(), c.fired)).collect::<Vec<_>>()), "evaluated": seq.total_rules_evaluated, "fired": seq.total_rules_fired}}));
            panic!("parallel result differs from sequential result");
        }
    });
}

// ------------------------------------------------------------------------------------------------

fn child(prop: &str, idx: usize, bound: Option<usize>, out: &str) {
    let t0 = Instant::now();
    let out2 = out.to_string();
    let prop2 = prop.to_string();
    // loom panics on failure (deadlock, our own oracle); record what we know before the process dies
    std::panic::set_hook(Box::new(move |info| {
        let msg = if let Some(s) = info.payload().downcast_ref::<&str>() { s.to_string() } else if let Some(s) = info.payload().downcast_ref::<String>() { s.clone() } else { "panic".to_string() };
        let fail = FAILURE.lock().ok().and_then(|g| g.clone());
        let class = fail.as_ref().and_then(|f| f["class"].as_str().map(|s| s.to_string())).unwrap_or_else(|| if msg.contains("deadlock") { "deadlock".to_string() } else { "loom_failure".to_string() });
        let j = json!({"ok": false, "property": prop2, "model": idx, "class": class, "message": msg.chars().take(1500).collect::<String>(), "failure": fail,
            "schedules": SCHEDULES.load(Ordering::SeqCst)});
        if !std::path::Path::new(&out2).exists() {
            let _ = std::fs::write(&out2, serde_json::to_string(&j).unwrap());
        }
    }));
    match prop {
        "C15" => run_c15(idx, bound),
        "C19" => run_c19(idx, bound),
        _ => panic!("unknown property"),
    }
    let outcomes: Vec<u64> = OUTCOMES.lock().unwrap().clone().unwrap_or_default().into_iter().collect();
    let j = json!({"ok": true, "property": prop, "model": idx, "schedules": SCHEDULES.load(Ordering::SeqCst), "overlapping": OVERLAPPING.load(Ordering::SeqCst),
        "calls": CALLS.load(Ordering::SeqCst), "outcomes": outcomes, "wall_s": t0.elapsed().as_secs_f64()});
    std::fs::write(out, serde_json::to_string(&j).unwrap()).unwrap();
}

fn parent(prop: &str, tier: &str, out: &str, only: Option<usize>) {
    let t0 = Instant::now();
    let exe = std::env::current_exe().unwrap();
    let (names, bound, sub): (Vec<String>, Option<usize>, &str) = match prop {
        "C15" => (c15_menus().into_iter().map(|m| m.0).collect(), Some(if tier == "thorough" { 4 } else { 3 }), "kb_loom"),
        "C19" => (c19_configs().into_iter().map(|m| m.0).collect(), Some(if tier == "thorough" { 4 } else { 3 }), "parallel_loom"),
        _ => {
            eprintln!("MACHINERY: unknown property {}", prop);
            std::process::exit(2);
        }
    };
    let scratch = std::env::var("VCHECK_SCRATCH").unwrap_or_else(|_| std::env::temp_dir().to_string_lossy().to_string());
    let next = AtomicUsize::new(0);
    let results: StdMutex<Vec<(usize, Option<J>, Option<i32>, f64)>> = StdMutex::new(vec![]);
    let nthreads = std::thread::available_parallelism().map(|n| n.get()).unwrap_or(4);
    let timeout_s: u64 = std::env::var("LOOMCHECK_TIMEOUT").ok().and_then(|s| s.parse().ok()).unwrap_or(if tier == "thorough" { 1500 } else { 240 });
    std::thread::scope(|sc| {
        for _ in 0..nthreads {
            sc.spawn(|| loop {
                let k = next.fetch_add(1, Ordering::SeqCst);
                if k >= names.len() {
                    break;
                }
                if let Some(o) = only {
                    if o != k {
                        continue;
                    }
                }
                // the larger C19 configurations get a smaller bound (documented in the evidence)
                let b = model_bound(prop, k, tier);
                let f = format!("{}/loom-{}-{}-{}.json", scratch, prop, k, std::process::id());
                let _ = std::fs::remove_file(&f);
                let t = Instant::now();
                let mut ch = std::process::Command::new(&exe)
                    .args(["--child", prop, &k.to_string(), &b.map(|x| x.to_string()).unwrap_or("none".into()), &f])
                    .stdout(std::process::Stdio::null())
                    .stderr(std::process::Stdio::null())
                    .spawn()
                    .unwrap();
                let mut code = None;
                loop {
                    match ch.try_wait().unwrap() {
                        Some(st) => {
                            code = st.code();
                            break;
                        }
                        None => {
                            if t.elapsed().as_secs() > timeout_s {
                                let _ = ch.kill();
                                let _ = ch.wait();
                                break;
                            }
                            std::thread::sleep(std::time::Duration::from_millis(20));
                        }
                    }
                }
                let j = std::fs::read_to_string(&f).ok().and_then(|s| serde_json::from_str::<J>(&s).ok());
                let _ = std::fs::remove_file(&f);
                results.lock().unwrap().push((k, j, code, t.elapsed().as_secs_f64()));
            });
        }
    });
    let mut rep = Report::new(sub);
    let mut res = results.into_inner().unwrap();
    res.sort_by_key(|r| r.0);
    for (k, j, code, wall) in res {
        rep.count("models", 1);
        let b = model_bound(prop, k, tier);
        match j {
            Some(j) if j["ok"] == json!(true) => {
                let s = j["schedules"].as_u64().unwrap_or(0);
                rep.count("schedules", s);
                rep.count("overlapping_schedules", j["overlapping"].as_u64().unwrap_or(0));
                rep.count("calls_checked", j["calls"].as_u64().unwrap_or(0));
                let n_out = j["outcomes"].as_array().map(|a| a.len()).unwrap_or(0);
                for o in j["outcomes"].as_array().cloned().unwrap_or_default() {
                    rep.outcomes.insert(hmix(k as u64, o.as_u64().unwrap_or(0)));
                    rep.states.insert(hmix(k as u64, o.as_u64().unwrap_or(0)));
                }
                rep.sample(json!({"model": names[k], "preemption_bound": b, "schedules": s, "distinct_outcomes": n_out, "wall_s": wall}));
                if s == 0 {
                    rep.notes.push(format!("VACUITY: model {} explored no schedule", names[k]));
                }
                if prop == "C15" && n_out < 2 {
                    rep.notes.push(format!("VACUITY: model {} has a single outcome over {} schedules (nothing collided)", names[k], s));
                }
            }
            Some(j) => {
                rep.count("schedules", j["schedules"].as_u64().unwrap_or(0));
                rep.violation(Violation {
                    class: j["class"].as_str().unwrap_or("loom_failure").to_string(),
                    detail: format!("{} | {}", j["message"].as_str().unwrap_or(""), j["failure"]),
                    tags: vec![],
                    case: json!({"sub": sub, "model": k, "model_name": names[k], "preemption_bound": b}),
                });
            }
            None => {
                if code.is_none() {
                    rep.cap_hit = Some(format!("model {} exceeded {} s at preemption bound {:?}", names[k], timeout_s, b));
                } else {
                    rep.notes.push(format!("MACHINERY: loom child for model {} exited with {:?} and no result", names[k], code));
                }
            }
        }
    }
    let bounds: Vec<String> = (0..names.len()).map(|k| match model_bound(prop, k, tier) { Some(b) => b.to_string(), None => "unbounded".to_string() }).collect();
    rep.bound = format!("{} models ({}), every schedule up to the per-model preemption bound {:?} (loom, DPOR)", names.len(), sub, bounds);
    let _ = bound;
    rep.assumptions.push("loom's model of RwLock / Mutex / Arc / spawn / join; memory orderings beyond those primitives are not modelled".into());
    rep.wall_s = t0.elapsed().as_secs_f64();
    let j = json!({"property": prop, "tier": tier, "subs": [rep.to_json()], "wall_s": t0.elapsed().as_secs_f64()});
    std::fs::write(out, serde_json::to_string_pretty(&j).unwrap()).unwrap();
}

fn main() {
    let a: Vec<String> = std::env::args().collect();
    if a.len() >= 6 && a[1] == "--child" {
        let bound = a[4].parse::<usize>().ok();
        child(&a[2], a[3].parse().unwrap(), bound, &a[5]);
        return;
    }
    let prop = a.get(1).cloned().unwrap_or_default();
    let mut tier = "quick".to_string();
    let mut out = "/dev/stderr".to_string();
    let mut only = None;
    let mut i = 2;
    while i < a.len() {
        match a[i].as_str() {
            "--tier" => {
                tier = a[i + 1].clone();
                i += 1;
            }
            "--out" => {
                out = a[i + 1].clone();
                i += 1;
            }
            "--model" => {
                only = a[i + 1].parse().ok();
                i += 1;
            }
            _ => {}
        }
        i += 1;
    }
    parent(&prop, &tier, &out, only);
}
