//! Process isolation for subjects that may hang, overflow the stack or abort.
//!
//! A batch of `n` cases is split over shards; each shard is a child process (`vcheck <prop> --child
//! <spec>`), which appends `S <k>` before and `D <k> <json>` after every case to a progress file.
//! The parent watches the file: a stall beyond the per-case timeout = `Hang` for the case named by
//! the last `S`, an abnormal exit = `Abort` for it; the shard then resumes after that case.
use serde_json::Value;
use std::io::{Read, Seek, SeekFrom, Write};
use std::process::{Command, Stdio};
use std::sync::atomic::{AtomicUsize, Ordering};
use std::sync::Mutex;
use std::time::{Duration, Instant};

#[derive(Debug, Clone)]
pub enum Outcome {
    Done(Value),
    Hang,
    Abort(String),
}

pub struct ChildSpec {
    pub batch: String,
    pub shard: usize,
    pub shards: usize,
    pub start: usize,
    pub n: usize,
    pub progress: String,
}

pub fn parse_spec(spec: &str) -> ChildSpec {
    let p: Vec<&str> = spec.split('|').collect();
    ChildSpec { batch: p[0].to_string(), shard: p[1].parse().unwrap(), shards: p[2].parse().unwrap(), start: p[3].parse().unwrap(), n: p[4].parse().unwrap(), progress: p[5].to_string() }
}

/// Child side: run the shard's cases from `start`, reporting progress.
/// `exit_after_panic`: a caught subject panic may leave process-wide state (cached regexes, locks)
/// half-updated, so the child finishes the case, flushes and exits with code 3; the parent resumes.
pub fn child_loop(spec: &ChildSpec, stack_mb: usize, mut f: impl FnMut(usize) -> (Value, bool) + Send) {
    let mut file = std::fs::OpenOptions::new().create(true).append(true).open(&spec.progress).expect("progress file");
    let shard = spec.shard;
    let shards = spec.shards;
    let start = spec.start;
    let n = spec.n;
    // run on a thread with a known stack size so that "stack overflow" is a property of the input,
    // not of the harness
    let r = std::thread::scope(|sc| {
        std::thread::Builder::new()
            .stack_size(stack_mb << 20)
            .spawn_scoped(sc, move || {
                let mut k = start;
                while k < n {
                    if k % shards == shard {
                        let _ = writeln!(file, "S {}", k);
                        let _ = file.flush();
                        let (v, panicked) = f(k);
                        let _ = writeln!(file, "D {} {}", k, v);
                        let _ = file.flush();
                        if panicked {
                            return 3;
                        }
                    }
                    k += 1;
                }
                0
            })
            .unwrap()
            .join()
            .unwrap_or(4)
    });
    std::process::exit(r);
}

/// Hangs and aborts cost a watchdog period each; a subject that hangs on a whole family of inputs would keep a
/// run busy for hours. After this many hang/abort outcomes (all of them violations) the batch stops handing out
/// work; the caller reports the truncation as a cap (`truncated()`), and the run ends with the violations found.
static HANGS: AtomicUsize = AtomicUsize::new(0);
static TRUNCATED: AtomicUsize = AtomicUsize::new(0);

fn hang_budget() -> usize {
    std::env::var("VCHECK_HANG_BUDGET").ok().and_then(|v| v.parse().ok()).unwrap_or(32)
}

pub fn truncated() -> Option<String> {
    if TRUNCATED.load(Ordering::SeqCst) > 0 {
        Some(format!("stopped after {} hang / abort outcomes (each is a reported violation); the remaining cases were not run", HANGS.load(Ordering::SeqCst)))
    } else {
        None
    }
}

/// Parent side.
pub fn run_batch(prop: &str, batch: &str, n: usize, timeout: Duration, shards: usize, extra_env: &[(&str, String)]) -> Vec<(usize, Outcome)> {
    run_batch_from(prop, batch, 0, n, timeout, shards, extra_env)
}

pub fn run_batch_from(prop: &str, batch: &str, first: usize, n: usize, timeout: Duration, shards: usize, extra_env: &[(&str, String)]) -> Vec<(usize, Outcome)> {
    let exe = std::env::current_exe().unwrap();
    let scratch = std::env::var("VCHECK_SCRATCH").unwrap_or_else(|_| std::env::temp_dir().to_string_lossy().to_string());
    let results: Mutex<Vec<(usize, Outcome)>> = Mutex::new(Vec::new());
    let shards = shards.max(1).min(n.max(1));
    let next_shard = AtomicUsize::new(0);
    let nthreads = crate::threads().min(shards);
    std::thread::scope(|sc| {
        for _ in 0..nthreads {
            sc.spawn(|| loop {
                let shard = next_shard.fetch_add(1, Ordering::SeqCst);
                if shard >= shards {
                    break;
                }
                if HANGS.load(Ordering::SeqCst) >= hang_budget() {
                    TRUNCATED.store(1, Ordering::SeqCst);
                    break;
                }
                let progress = format!("{}/prog-{}-{}-{}-{}.txt", scratch, prop, batch.replace(|c: char| !c.is_alphanumeric(), "_"), shard, std::process::id());
                let mut start = first;
                loop {
                    let _ = std::fs::remove_file(&progress);
                    let spec = format!("{}|{}|{}|{}|{}|{}", batch, shard, shards, start, n, progress);
                    // the child runs under an address-space limit: a subject that never returns and keeps allocating (an
                    // unbounded firing loop collecting its firings) must end as an aborted child, not exhaust the machine
                    let mut cmd = Command::new("sh");
                    cmd.arg("-c").arg("ulimit -v 3145728 2>/dev/null; exec \"$0\" \"$@\"").arg(&exe);
                    cmd.args([prop, "--child", &spec]).stdout(Stdio::null()).stderr(Stdio::null());
                    for (k, v) in extra_env {
                        cmd.env(k, v);
                    }
                    let mut ch = cmd.spawn().expect("spawn child");
                    let mut offset = 0u64;
                    let mut last_progress = Instant::now();
                    let mut current: Option<usize> = None;
                    let mut buf = String::new();
                    let mut status = None;
                    let mut local: Vec<(usize, Outcome)> = Vec::new();
                    loop {
                        // drain new progress lines
                        let mut drained = false;
                        if let Ok(mut f) = std::fs::File::open(&progress) {
                            if f.seek(SeekFrom::Start(offset)).is_ok() {
                                let mut chunk = String::new();
                                if let Ok(nread) = f.read_to_string(&mut chunk) {
                                    if nread > 0 {
                                        offset += nread as u64;
                                        buf.push_str(&chunk);
                                        drained = true;
                                    }
                                }
                            }
                        }
                        while let Some(pos) = buf.find('\n') {
                            let line: String = buf[..pos].to_string();
                            buf.drain(..=pos);
                            if let Some(rest) = line.strip_prefix("S ") {
                                current = rest.trim().parse().ok();
                                last_progress = Instant::now();
                            } else if let Some(rest) = line.strip_prefix("D ") {
                                let mut it = rest.splitn(2, ' ');
                                let k: usize = it.next().unwrap_or("0").parse().unwrap_or(0);
                                let v: Value = serde_json::from_str(it.next().unwrap_or("null")).unwrap_or(Value::Null);
                                local.push((k, Outcome::Done(v)));
                                if current == Some(k) {
                                    current = None;
                                }
                                last_progress = Instant::now();
                            }
                        }
                        if status.is_some() && !drained {
                            break;
                        }
                        if status.is_none() {
                            match ch.try_wait() {
                                Ok(Some(st)) => {
                                    status = Some(st);
                                    continue; // drain once more
                                }
                                _ => {}
                            }
                            if current.is_some() && last_progress.elapsed() > timeout {
                                let _ = ch.kill();
                                let _ = ch.wait();
                                break;
                            }
                            if current.is_none() && last_progress.elapsed() > timeout + Duration::from_secs(30) {
                                let _ = ch.kill();
                                let _ = ch.wait();
                                break;
                            }
                            std::thread::sleep(Duration::from_millis(3));
                        }
                    }
                    let _ = std::fs::remove_file(&progress);
                    let mut resume = None;
                    match status {
                        Some(st) if st.code() == Some(0) => {}
                        Some(st) if st.code() == Some(3) => {
                            // exited on purpose after a caught panic: resume after the last finished case
                            let last_done = local.iter().map(|x| x.0).max();
                            resume = Some(last_done.map(|k| k + 1).unwrap_or(start + 1));
                        }
                        Some(st) => {
                            if let Some(k) = current {
                                #[cfg(unix)]
                                let sig = {
                                    use std::os::unix::process::ExitStatusExt;
                                    st.signal()
                                };
                                #[cfg(not(unix))]
                                let sig: Option<i32> = None;
                                local.push((k, Outcome::Abort(format!("child exited with code {:?} signal {:?}", st.code(), sig))));
                                HANGS.fetch_add(1, Ordering::SeqCst);
                                resume = Some(k + 1);
                            } else {
                                crate::explore::machinery(&format!("isolated child for {} {} died outside a case: {:?}", prop, batch, st));
                            }
                        }
                        None => {
                            if let Some(k) = current {
                                local.push((k, Outcome::Hang));
                                HANGS.fetch_add(1, Ordering::SeqCst);
                                resume = Some(k + 1);
                            } else {
                                crate::explore::machinery(&format!("isolated child for {} {} stalled outside a case", prop, batch));
                            }
                        }
                    }
                    results.lock().unwrap().extend(local);
                    if resume.map(|k| k < n) == Some(true) && HANGS.load(Ordering::SeqCst) >= hang_budget() {
                        TRUNCATED.store(1, Ordering::SeqCst);
                        break;
                    }
                    match resume {
                        Some(k) if k < n => start = k,
                        _ => break,
                    }
                }
            });
        }
    });
    let mut r = results.into_inner().unwrap();
    r.sort_by_key(|x| x.0);
    r
}
