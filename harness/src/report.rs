//! Result record written by every sub-check; merged and turned into evidence by ../check.
use serde_json::{json, Value};
use std::collections::{BTreeMap, HashSet};

#[derive(Clone, Debug)]
pub struct Violation {
    /// closed vocabulary: which oracle clause failed
    pub class: String,
    pub detail: String,
    /// feature tags of the failing case (closed vocabulary, computed by the generator)
    pub tags: Vec<String>,
    /// replayable case (property specific)
    pub case: Value,
}

pub struct Report {
    pub sub: String,
    pub bound: String,
    pub counters: BTreeMap<String, u64>,
    pub letters: BTreeMap<String, u64>,
    pub tags: BTreeMap<String, u64>,
    pub max_depth: usize,
    pub states: HashSet<u64>,
    pub outcomes: HashSet<u64>,
    pub digest: u64,
    pub violations: Vec<Violation>,
    pub violation_counts: BTreeMap<String, u64>,
    pub samples: Vec<Value>,
    pub exhaustive: bool,
    pub cap_hit: Option<String>,
    pub assumptions: Vec<String>,
    pub notes: Vec<String>,
    pub wall_s: f64,
}

pub const MAX_WITNESSES_PER_CLASS: usize = 12;

impl Report {
    pub fn new(sub: &str) -> Self {
        Report {
            sub: sub.to_string(),
            bound: String::new(),
            counters: BTreeMap::new(),
            letters: BTreeMap::new(),
            tags: BTreeMap::new(),
            max_depth: 0,
            states: HashSet::new(),
            outcomes: HashSet::new(),
            digest: 0,
            violations: Vec::new(),
            violation_counts: BTreeMap::new(),
            samples: Vec::new(),
            exhaustive: true,
            cap_hit: None,
            assumptions: Vec::new(),
            notes: Vec::new(),
            wall_s: 0.0,
        }
    }
    pub fn count(&mut self, k: &str, n: u64) {
        *self.counters.entry(k.to_string()).or_insert(0) += n;
    }
    pub fn get(&self, k: &str) -> u64 {
        self.counters.get(k).copied().unwrap_or(0)
    }
    pub fn letter(&mut self, k: &str) {
        *self.letters.entry(k.to_string()).or_insert(0) += 1;
    }
    pub fn tag(&mut self, k: &str) {
        *self.tags.entry(k.to_string()).or_insert(0) += 1;
    }
    pub fn violation(&mut self, v: Violation) {
        // key = class + sorted tags, so differently tagged witnesses of one class are all kept
        let mut key = v.class.clone();
        let mut t = v.tags.clone();
        t.sort();
        for x in &t {
            key.push('|');
            key.push_str(x);
        }
        let n = self.violation_counts.entry(key.clone()).or_insert(0);
        *n += 1;
        self.keep(v);
    }
    fn size(v: &Violation) -> usize {
        v.case.get("choices").and_then(|c| c.as_array()).map(|a| a.len()).unwrap_or_else(|| v.case.to_string().len())
    }
    /// keep at most MAX_WITNESSES_PER_CLASS witnesses per (class, tags), preferring the shortest
    fn keep(&mut self, v: Violation) {
        let mut t = v.tags.clone();
        t.sort();
        let same: Vec<usize> = self
            .violations
            .iter()
            .enumerate()
            .filter(|(_, w)| {
                let mut wt = w.tags.clone();
                wt.sort();
                w.class == v.class && wt == t
            })
            .map(|(i, _)| i)
            .collect();
        if same.len() < MAX_WITNESSES_PER_CLASS {
            self.violations.push(v);
        } else {
            let worst = same.iter().copied().max_by_key(|&i| Self::size(&self.violations[i])).unwrap();
            if Self::size(&v) < Self::size(&self.violations[worst]) {
                self.violations[worst] = v;
            }
        }
    }
    pub fn sample(&mut self, v: Value) {
        if self.samples.len() < 6 {
            self.samples.push(v);
        }
    }
    pub fn merge(&mut self, o: Report) {
        for (k, v) in o.counters {
            *self.counters.entry(k).or_insert(0) += v;
        }
        for (k, v) in o.letters {
            *self.letters.entry(k).or_insert(0) += v;
        }
        for (k, v) in o.tags {
            *self.tags.entry(k).or_insert(0) += v;
        }
        self.max_depth = self.max_depth.max(o.max_depth);
        self.states.extend(o.states);
        self.outcomes.extend(o.outcomes);
        self.digest = self.digest.wrapping_add(o.digest);
        for (k, v) in o.violation_counts {
            *self.violation_counts.entry(k).or_insert(0) += v;
        }
        for v in o.violations {
            self.keep(v);
        }
        for s in o.samples {
            self.sample(s);
        }
        self.exhaustive &= o.exhaustive;
        if self.cap_hit.is_none() {
            self.cap_hit = o.cap_hit;
        }
        for n in o.notes {
            if !self.notes.contains(&n) {
                self.notes.push(n);
            }
        }
    }
    pub fn to_json(&self) -> Value {
        let viol: Vec<Value> = self
            .violations
            .iter()
            .map(|v| json!({"class": v.class, "detail": v.detail, "tags": v.tags, "case": v.case}))
            .collect();
        json!({
            "sub": self.sub,
            "bound": self.bound,
            "counters": self.counters,
            "letters": self.letters,
            "tags": self.tags,
            "max_depth": self.max_depth,
            "states": self.states.len(),
            "distinct_outcomes": self.outcomes.len(),
            "digest": format!("{:016x}", self.digest),
            "violations": viol,
            "violation_counts": self.violation_counts,
            "samples": self.samples,
            "exhaustive": self.exhaustive && self.cap_hit.is_none(),
            "cap_hit": self.cap_hit,
            "assumptions": self.assumptions,
            "notes": self.notes,
            "wall_s": self.wall_s,
        })
    }
}

/// FNV-1a based stable hash helper (std's DefaultHasher with fixed keys is also stable, but
/// this keeps digests independent of the std version).
pub fn h64(bytes: &[u8]) -> u64 {
    let mut h: u64 = 0xcbf29ce484222325;
    for b in bytes {
        h ^= *b as u64;
        h = h.wrapping_mul(0x100000001b3);
    }
    // final avalanche
    h ^= h >> 33;
    h = h.wrapping_mul(0xff51afd7ed558ccd);
    h ^= h >> 33;
    h
}
pub fn hstr(s: &str) -> u64 {
    h64(s.as_bytes())
}
pub fn hmix(a: u64, b: u64) -> u64 {
    let mut x = a ^ b.wrapping_mul(0x9e3779b97f4a7c15).rotate_left(31);
    x ^= x >> 29;
    x = x.wrapping_mul(0xbf58476d1ce4e5b9);
    x ^= x >> 32;
    x
}
