//! Small helpers shared by the property modules.
use rust_rule_engine::streaming::event::{EventMetadata, StreamEvent};
use rust_rule_engine::types::Value;
use std::collections::HashMap;

/// Build an event with harness-chosen id / timestamp (no clock, no random id).
pub fn event(id: &str, source: &str, event_type: &str, ts: u64, data: Vec<(&str, Value)>) -> StreamEvent {
    StreamEvent {
        id: id.to_string(),
        event_type: event_type.to_string(),
        data: data.into_iter().map(|(k, v)| (k.to_string(), v)).collect(),
        metadata: EventMetadata {
            timestamp: ts,
            source: source.to_string(),
            sequence: 0,
            tags: HashMap::new(),
        },
    }
}
