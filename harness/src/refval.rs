//! ref_value — the *documented* operator semantics on a typed value domain, with an explicit
//! `None` (= Undefined) wherever the documentation is silent. Cases that evaluate to Undefined are
//! executed and counted but can never be violations.
use rust_rule_engine::engine::facts::Facts;
use rust_rule_engine::types::Value;
use std::collections::{BTreeMap, HashMap};

#[derive(Clone, Debug, PartialEq)]
pub enum V {
    Null,
    Int(i64),
    Float(f64),
    Str(String),
    Bool(bool),
    Arr(Vec<V>),
}

impl V {
    pub fn grl(&self) -> String {
        match self {
            V::Null => "null".into(),
            V::Int(i) => i.to_string(),
            V::Float(f) => {
                let s = format!("{}", f);
                if s.contains('.') {
                    s
                } else {
                    format!("{}.0", s)
                }
            }
            V::Str(s) => format!("\"{}\"", s),
            V::Bool(b) => b.to_string(),
            V::Arr(a) => format!("[{}]", a.iter().map(|x| x.grl()).collect::<Vec<_>>().join(", ")),
        }
    }
    pub fn to_value(&self) -> Value {
        match self {
            V::Null => Value::Null,
            V::Int(i) => Value::Integer(*i),
            V::Float(f) => Value::Number(*f),
            V::Str(s) => Value::String(s.clone()),
            V::Bool(b) => Value::Boolean(*b),
            V::Arr(a) => Value::Array(a.iter().map(|x| x.to_value()).collect()),
        }
    }
    pub fn from_value(v: &Value) -> Option<V> {
        Some(match v {
            Value::Null => V::Null,
            Value::Integer(i) => V::Int(*i),
            Value::Number(f) => V::Float(*f),
            Value::String(s) => V::Str(s.clone()),
            Value::Boolean(b) => V::Bool(*b),
            Value::Array(a) => V::Arr(a.iter().filter_map(V::from_value).collect()),
            _ => return None,
        })
    }
    pub fn num(&self) -> Option<f64> {
        match self {
            V::Int(i) => Some(*i as f64),
            V::Float(f) => Some(*f),
            _ => None,
        }
    }
    fn kind(&self) -> u8 {
        match self {
            V::Null => 0,
            V::Int(_) => 1,
            V::Float(_) => 2,
            V::Str(_) => 3,
            V::Bool(_) => 4,
            V::Arr(_) => 5,
        }
    }
}

#[derive(Clone, Copy, Debug, PartialEq, Eq)]
pub enum Op {
    Eq,
    Ne,
    Lt,
    Le,
    Gt,
    Ge,
    Contains,
    StartsWith,
    EndsWith,
    In,
}

impl Op {
    pub const ALL: [Op; 10] = [Op::Eq, Op::Ne, Op::Lt, Op::Le, Op::Gt, Op::Ge, Op::Contains, Op::StartsWith, Op::EndsWith, Op::In];
    pub fn grl(&self) -> &'static str {
        match self {
            Op::Eq => "==",
            Op::Ne => "!=",
            Op::Lt => "<",
            Op::Le => "<=",
            Op::Gt => ">",
            Op::Ge => ">=",
            Op::Contains => "contains",
            Op::StartsWith => "startsWith",
            Op::EndsWith => "endsWith",
            Op::In => "in",
        }
    }
}

/// same-type equality; None when the two types differ (int vs float, number vs string, ...)
fn same_type_eq(l: &V, r: &V) -> Option<bool> {
    if l.kind() != r.kind() {
        return None;
    }
    match (l, r) {
        (V::Arr(a), V::Arr(b)) => {
            if a.len() != b.len() {
                return Some(false);
            }
            let mut all = true;
            for (x, y) in a.iter().zip(b.iter()) {
                all &= same_type_eq(x, y)?;
            }
            Some(all)
        }
        _ => Some(l == r),
    }
}

/// The documented meaning of `l op r`; None = the documentation does not define it.
pub fn compare(l: &V, op: Op, r: &V) -> Option<bool> {
    // the literal text "null" inside a string is special-cased by the implementation: undefined
    if matches!(l, V::Str(s) if s == "null") || matches!(r, V::Str(s) if s == "null") {
        return None;
    }
    match op {
        Op::Eq | Op::Ne => {
            let eq = if matches!(l, V::Null) || matches!(r, V::Null) { Some(matches!(l, V::Null) && matches!(r, V::Null)) } else { same_type_eq(l, r) }?;
            Some(if op == Op::Eq { eq } else { !eq })
        }
        Op::Lt | Op::Le | Op::Gt | Op::Ge => {
            if matches!(l, V::Null) || matches!(r, V::Null) {
                // a missing field reads as null, and null is not a number: ordering is false
                return Some(false);
            }
            let (a, b) = (l.num()?, r.num()?);
            Some(match op {
                Op::Lt => a < b,
                Op::Le => a <= b,
                Op::Gt => a > b,
                _ => a >= b,
            })
        }
        Op::Contains | Op::StartsWith | Op::EndsWith => match (l, r) {
            (V::Str(a), V::Str(b)) => Some(match op {
                Op::Contains => a.contains(b.as_str()),
                Op::StartsWith => a.starts_with(b.as_str()),
                _ => a.ends_with(b.as_str()),
            }),
            (V::Null, V::Str(_)) => Some(false),
            _ => None,
        },
        Op::In => match r {
            V::Arr(items) => {
                if matches!(l, V::Arr(_)) {
                    return None;
                }
                let mut found = false;
                for it in items {
                    if matches!(l, V::Null) {
                        if matches!(it, V::Null) {
                            return None;
                        }
                        continue;
                    }
                    found |= same_type_eq(l, it)?;
                }
                Some(found)
            }
            _ => None,
        },
    }
}

/// A fact store: dotted paths -> values, laid out as nested objects or as flat keys.
#[derive(Clone, Debug)]
pub struct Store {
    pub nested: bool,
    pub vals: BTreeMap<String, V>,
}

impl Store {
    pub fn get(&self, path: &str) -> V {
        self.vals.get(path).cloned().unwrap_or(V::Null)
    }
    pub fn has(&self, path: &str) -> bool {
        self.vals.contains_key(path)
    }
    pub fn to_facts(&self, objects: &[&str]) -> Facts {
        let f = Facts::new();
        if self.nested {
            // build nested objects
            fn insert(map: &mut HashMap<String, Value>, parts: &[&str], v: Value) {
                if parts.len() == 1 {
                    map.insert(parts[0].to_string(), v);
                } else {
                    let e = map.entry(parts[0].to_string()).or_insert_with(|| Value::Object(HashMap::new()));
                    if let Value::Object(m) = e {
                        insert(m, &parts[1..], v);
                    }
                }
            }
            let mut top: HashMap<String, Value> = HashMap::new();
            for o in objects {
                top.insert(o.to_string(), Value::Object(HashMap::new()));
            }
            for (p, v) in &self.vals {
                let parts: Vec<&str> = p.split('.').collect();
                insert(&mut top, &parts, v.to_value());
            }
            for (k, v) in top {
                f.set(&k, v);
            }
        } else {
            for (p, v) in &self.vals {
                f.set(p, v.to_value());
            }
        }
        f
    }
    pub fn describe(&self) -> serde_json::Value {
        serde_json::json!({"layout": if self.nested { "nested" } else { "flat" }, "values": self.vals.iter().map(|(k, v)| (k.clone(), v.grl())).collect::<BTreeMap<_, _>>()})
    }
}

/// read a dotted path back from real facts: nested first, then flat key
pub fn read(f: &Facts, path: &str) -> Option<V> {
    f.get_nested(path).or_else(|| f.get(path)).and_then(|v| V::from_value(&v))
}
