//! C11 — a query's answer does not depend on earlier queries.
//! One long-lived BackwardEngine (memoisation on, optionally with a RETE engine attached) is driven
//! through every history of queries and fact changes; every answer is compared with a freshly built
//! engine given a deep copy of the same facts.
use crate::explore::{self, Config, Mismatch, System};
use crate::props::c09::{Body, HRule, FIELDS};
use crate::report::{hstr, Report};
use crate::{Opts, Tier};
use rust_rule_engine::backward::backward_engine::BackwardEngine;
use rust_rule_engine::engine::facts::Facts;
use rust_rule_engine::engine::knowledge_base::KnowledgeBase;
use rust_rule_engine::rete::propagation::IncrementalEngine;
use rust_rule_engine::types::Value;
use serde_json::json;
use std::collections::BTreeMap;
use std::sync::{Arc, Mutex};

// field indices into c09::FIELDS = [a, b, c, g, d, e]; leaves: d ("x"), e ("y")
const A: usize = 0;
const B: usize = 1;
const G: usize = 3;
const X: usize = 4;
const Y: usize = 5;

fn one(x: usize, head: usize, value: bool) -> HRule {
    HRule { body: Body::One(x), head, value }
}

pub fn programs() -> Vec<(&'static str, Vec<HRule>)> {
    vec![
        ("chain2", vec![one(X, A, true), one(A, G, true)]),
        ("single", vec![one(X, G, true)]),
        ("wrong_value", vec![one(X, A, true), one(A, G, false)]),
        ("and_body", vec![HRule { body: Body::And(X, Y), head: G, value: true }]),
        ("or_body", vec![HRule { body: Body::Or(X, Y), head: G, value: true }]),
        ("cycle", vec![one(A, G, true), one(G, A, true), one(X, A, true)]),
        ("two_ways", vec![one(X, A, true), one(Y, A, true), one(A, G, true)]),
        ("chain3", vec![one(X, A, true), one(A, B, true), one(B, G, true)]),
        ("goal_rule_first", vec![one(A, G, true), one(X, A, true)]),
        ("and_of_derived", vec![one(X, A, true), one(Y, B, true), HRule { body: Body::And(A, B), head: G, value: true }]),
        ("dead_end_first", vec![one(B, G, true), one(X, G, true)]),
        ("wrong_then_right", vec![one(Y, A, false), one(X, G, true)]),
        // plus one rule outside the Horn form (added in kb_of): F.c == "a b" -> F.a = true
        ("string_condition", vec![one(A, G, true)]),
    ]
}

const TEXTS: [&str; 4] = ["a b", "a  b", " a b", "a b "];

const QUERIES: [&str; 4] = ["F.g == true", "F.a == true", "F.g == false", "NOT F.g == true"];
/// aggregate queries are queries too: one whose pattern can match, one that matches nothing, one whose WHERE
/// pattern does not parse (the call returns an error)
const AGGREGATES: [&str; 3] = ["count(?v) WHERE F.g == true", "count(?v) WHERE F.zz == true", "count(?v) WHERE F.g == == ("];

#[derive(Clone, Debug)]
pub enum Op {
    Query(usize),
    SetLeaf(usize, bool),
    RemoveLeaf(usize),
    FreshFacts(u8),
    RetractInRete,
    /// the leaf holds the *string* "true" (prints like the boolean)
    SetLeafString(usize),
    /// the caller's facts become one object fact `F` holding the leaves selected by the mask
    FreshNested(u8),
    Aggregate(usize),
    /// the text fact F.c becomes one of four strings that differ in blanks only
    SetText(usize),
    /// the number fact F.n becomes the integer 5, the float 5.0, the string "5" or the integer 6
    SetNum(u8),
    /// set_config: 0 = DFS, 1 = BFS, 2 = DFS with max_solutions 3 (same max_depth throughout)
    SetConfig(u8),
    /// one GRL query text executed through GRLQueryExecutor::execute (it configures the engine itself)
    GrlQuery(usize),
}

pub struct Sys {
    prog: usize,
    kb: KnowledgeBase,
    eng: BackwardEngine,
    facts: Facts,
    rete: Option<Arc<Mutex<IncrementalEngine>>>,
    queries_done: Vec<(usize, String)>,
    facts_changed_since: BTreeMap<usize, bool>,
    max_queries: usize,
    /// 0: flat boolean leaves; 1: value shapes (string "true", object fact); 2: aggregate and NOT queries;
    /// 3: configuration changes between queries; 4: GRL query texts through GRLQueryExecutor
    alphabet: u8,
    /// the configuration the caller asked for (a fresh engine is built with it, never with the used engine's copy)
    mcfg: rust_rule_engine::backward::backward_engine::BackwardConfig,
}

fn config_of(k: u8) -> rust_rule_engine::backward::backward_engine::BackwardConfig {
    use rust_rule_engine::backward::search::SearchStrategy;
    let mut c = rust_rule_engine::backward::backward_engine::BackwardConfig::default();
    match k {
        1 => c.strategy = SearchStrategy::BreadthFirst,
        2 => c.max_solutions = 3,
        _ => c.strategy = SearchStrategy::DepthFirst,
    }
    c
}

/// GRL query texts that differ in max-depth and max-solutions only; the goal F.a has two one-step derivations in
/// program `two_ways`, so the number of solutions shows which max-solutions the search ran with
fn grl_queries() -> Vec<String> {
    let mut v = vec![];
    for (d, m) in [(10, 1), (10, 3), (5, 1), (5, 3)] {
        v.push(format!("query \"Q{}_{}\" {{\n    goal: F.a == true\n    strategy: depth-first\n    max-depth: {}\n    max-solutions: {}\n}}", d, m, d, m));
    }
    v
}

fn kb_of(prog: &[HRule]) -> KnowledgeBase {
    kb_named("", prog)
}

fn kb_named(name: &str, prog: &[HRule]) -> KnowledgeBase {
    let kb = KnowledgeBase::new("kb");
    if name == "string_condition" {
        use rust_rule_engine::engine::rule::{Condition, ConditionGroup, Rule};
        use rust_rule_engine::types::{ActionType, Operator};
        kb.add_rule(Rule::new(
            "Text".to_string(),
            ConditionGroup::single(Condition::new("F.c".to_string(), Operator::Equal, Value::String(TEXTS[0].to_string()))),
            vec![ActionType::Set { field: format!("F.{}", FIELDS[A]), value: Value::Boolean(true) }],
        ))
        .unwrap();
        // and a rule conditioned on a number: F.n == 5 (integer literal) -> F.a = true
        kb.add_rule(Rule::new(
            "Num".to_string(),
            ConditionGroup::single(Condition::new("F.n".to_string(), Operator::Equal, Value::Integer(5))),
            vec![ActionType::Set { field: format!("F.{}", FIELDS[A]), value: Value::Boolean(true) }],
        ))
        .unwrap();
    }
    for (i, r) in prog.iter().enumerate() {
        kb.add_rule(r.build(&format!("R{}", i))).unwrap();
    }
    kb
}

fn store(mask: u8) -> Facts {
    let f = Facts::new();
    if mask & 1 != 0 {
        f.set(&format!("F.{}", FIELDS[X]), Value::Boolean(true));
    }
    if mask & 2 != 0 {
        f.set(&format!("F.{}", FIELDS[Y]), Value::Boolean(true));
    }
    f
}

fn store_nested(mask: u8) -> Facts {
    let f = Facts::new();
    let mut o = std::collections::HashMap::new();
    if mask & 1 != 0 {
        o.insert(FIELDS[X].to_string(), Value::Boolean(true));
    }
    if mask & 2 != 0 {
        o.insert(FIELDS[Y].to_string(), Value::Boolean(true));
    }
    f.set("F", Value::Object(o));
    f
}

fn deep_copy(f: &Facts) -> Facts {
    let g = Facts::new();
    for (k, v) in f.get_all_facts() {
        g.set(&k, v);
    }
    g
}

impl Sys {
    pub fn new(prog: usize, with_rete: bool, max_queries: usize) -> Self {
        Sys::with_alphabet(prog, with_rete, max_queries, 0)
    }
    pub fn with_alphabet(prog: usize, with_rete: bool, max_queries: usize, alphabet: u8) -> Self {
        let kb = kb_named(programs()[prog].0, &programs()[prog].1);
        Sys {
            prog,
            eng: BackwardEngine::new(kb.clone()),
            kb,
            facts: store(0),
            rete: if with_rete { Some(Arc::new(Mutex::new(IncrementalEngine::new()))) } else { None },
            queries_done: vec![],
            facts_changed_since: BTreeMap::new(),
            max_queries,
            alphabet,
            mcfg: rust_rule_engine::backward::backward_engine::BackwardConfig::default(),
        }
    }
    fn render(f: &Facts) -> String {
        let m: BTreeMap<String, String> = f.get_all_facts().into_iter().map(|(k, v)| (k, format!("{:?}", v))).collect();
        format!("{:?}", m)
    }
    fn changed(&mut self) {
        for v in self.facts_changed_since.values_mut() {
            *v = true;
        }
    }
}

impl System for Sys {
    type Op = Op;
    fn enabled(&self) -> Vec<Op> {
        let mut v = vec![];
        if self.alphabet == 1 {
            if self.queries_done.len() < self.max_queries {
                v.push(Op::Query(0));
                v.push(Op::Query(1));
            }
            v.push(Op::SetLeaf(X, true));
            v.push(Op::SetLeafString(X));
            v.push(Op::RemoveLeaf(X));
            v.push(Op::FreshFacts(0));
            for m in 0..4u8 {
                v.push(Op::FreshNested(m));
            }
            for t in 0..TEXTS.len() {
                v.push(Op::SetText(t));
            }
            for k in 0..4u8 {
                v.push(Op::SetNum(k));
            }
            return v;
        }
        if self.alphabet == 2 {
            if self.queries_done.len() < self.max_queries {
                for q in 0..QUERIES.len() {
                    v.push(Op::Query(q));
                }
                for a in 0..AGGREGATES.len() {
                    v.push(Op::Aggregate(a));
                }
            }
            v.push(Op::SetLeaf(X, true));
            v.push(Op::SetLeaf(Y, true));
            v.push(Op::FreshFacts(0));
            return v;
        }
        if self.alphabet == 3 {
            if self.queries_done.len() < self.max_queries {
                v.push(Op::Query(0));
                v.push(Op::Query(1));
            }
            v.push(Op::SetLeaf(X, true));
            v.push(Op::FreshFacts(0));
            for k in 0..3u8 {
                v.push(Op::SetConfig(k));
            }
            return v;
        }
        if self.alphabet == 4 {
            for q in 0..grl_queries().len() {
                v.push(Op::GrlQuery(q));
            }
            v.push(Op::FreshFacts(3));
            return v;
        }
        if self.queries_done.len() < self.max_queries {
            for q in 0..3 {
                v.push(Op::Query(q));
            }
        }
        v.push(Op::SetLeaf(X, true));
        v.push(Op::SetLeaf(X, false));
        v.push(Op::RemoveLeaf(X));
        v.push(Op::SetLeaf(Y, true));
        for m in 0..4u8 {
            v.push(Op::FreshFacts(m));
        }
        if self.rete.is_some() {
            v.push(Op::RetractInRete);
        }
        v
    }
    fn step(&mut self, op: &Op) -> Result<u64, Mismatch> {
        match op {
            Op::SetLeaf(k, b) => {
                self.facts.set(&format!("F.{}", FIELDS[*k]), Value::Boolean(*b));
                self.changed();
                Ok(1)
            }
            Op::RemoveLeaf(k) => {
                self.facts.remove(&format!("F.{}", FIELDS[*k]));
                self.changed();
                Ok(2)
            }
            Op::FreshFacts(m) => {
                self.facts = store(*m);
                self.changed();
                Ok(3)
            }
            Op::SetLeafString(k) => {
                self.facts.set(&format!("F.{}", FIELDS[*k]), Value::String("true".to_string()));
                self.changed();
                Ok(5)
            }
            Op::SetText(t) => {
                self.facts.set("F.c", Value::String(TEXTS[*t].to_string()));
                self.changed();
                Ok(8)
            }
            Op::SetNum(k) => {
                let v = match k {
                    0 => Value::Integer(5),
                    1 => Value::Number(5.0),
                    2 => Value::String("5".to_string()),
                    _ => Value::Integer(6),
                };
                self.facts.set("F.n", v);
                self.changed();
                Ok(9)
            }
            Op::FreshNested(m) => {
                self.facts = store_nested(*m);
                self.changed();
                Ok(6)
            }
            Op::Aggregate(ai) => {
                let q = AGGREGATES[*ai];
                let before = Sys::render(&self.facts);
                let mut copy = deep_copy(&self.facts);
                let mut fresh = BackwardEngine::new(self.kb.clone());
                // only success / error is compared: the count itself depends on candidate order (see below)
                let exp = fresh.query_aggregate(q, &mut copy).map(|_| "value").map_err(|_| "error".to_string());
                let got = self.eng.query_aggregate(q, &mut self.facts).map(|_| "value").map_err(|_| "error".to_string());
                self.queries_done.push((100 + *ai, before.clone()));
                if Sys::render(&self.facts) != before {
                    self.changed();
                }
                if got != exp {
                    return Err(Mismatch::tagged("aggregate_differs_from_fresh_engine", format!("program {}: `{}` on facts {} gave {:?}, a freshly built engine gives {:?}; earlier on this engine: {:?}", programs()[self.prog].0, q, before, got, exp, self.queries_done), &["aggregate_query"]));
                }
                Ok(hstr(&format!("agg{:?}", got)))
            }
            Op::SetConfig(k) => {
                self.mcfg = config_of(*k);
                self.eng.set_config(self.mcfg.clone());
                Ok(7)
            }
            Op::GrlQuery(qi) => {
                use rust_rule_engine::backward::grl_query::{GRLQueryExecutor, GRLQueryParser};
                let text = grl_queries()[*qi].clone();
                let q = GRLQueryParser::parse(&text).map_err(|e| Mismatch::new("grl_query_rejected", format!("{:?}\n{}", e, text)))?;
                let before = Sys::render(&self.facts);
                let mut copy = deep_copy(&self.facts);
                let mut fresh = BackwardEngine::new(self.kb.clone());
                let exp = GRLQueryExecutor::execute(&q, &mut fresh, &mut copy).map(|r| (r.provable, r.solutions.len())).map_err(|e| format!("{:?}", e));
                let got = GRLQueryExecutor::execute(&q, &mut self.eng, &mut self.facts).map(|r| (r.provable, r.solutions.len())).map_err(|e| format!("{:?}", e));
                self.queries_done.push((200 + *qi, before.clone()));
                if got != exp {
                    return Err(Mismatch::tagged("grl_query_answer_differs_from_fresh_engine", format!("program {}: GRL query {} (max-depth / max-solutions in its text) on facts {} answered (provable, solutions) = {:?}, a freshly built engine answers {:?}; earlier on this engine: {:?}", programs()[self.prog].0, text.lines().next().unwrap_or(""), before, got, exp, self.queries_done), &["grl_query_executor"]));
                }
                Ok(hstr(&format!("grl{:?}", got)))
            }
            Op::RetractInRete => {
                if let Some(r) = &self.rete {
                    let mut e = r.lock().unwrap();
                    let mut hs: Vec<u64> = e.working_memory().get_all_handles().iter().map(|h| h.id()).collect();
                    hs.sort();
                    if let Some(h) = hs.first() {
                        let _ = e.retract(rust_rule_engine::rete::working_memory::FactHandle::new(*h));
                    }
                }
                Ok(4)
            }
            Op::Query(qi) => {
                let q = QUERIES[*qi];
                let before = Sys::render(&self.facts);
                // reference: a freshly built engine (and fresh, empty RETE engine) on a deep copy
                let mut copy = deep_copy(&self.facts);
                let mut fresh = BackwardEngine::with_config(self.kb.clone(), self.mcfg.clone());
                let fresh_rete = self.rete.as_ref().map(|_| Arc::new(Mutex::new(IncrementalEngine::new())));
                let exp_full = fresh.query_with_rete_engine(q, &mut copy, fresh_rete).map(|r| (r.provable, r.solutions.len())).map_err(|e| format!("{:?}", e));
                let got_full = self.eng.query_with_rete_engine(q, &mut self.facts, self.rete.clone()).map(|r| (r.provable, r.solutions.len())).map_err(|e| format!("{:?}", e));
                let exp = exp_full.clone().map(|x| x.0);
                let got = got_full.clone().map(|x| x.0);
                let facts_exp = Sys::render(&copy);
                let repeated = self.facts_changed_since.get(qi).copied();
                let mut tags: Vec<&str> = vec![];
                if repeated == Some(true) {
                    tags.push("same_query_after_facts_changed");
                } else if repeated == Some(false) {
                    tags.push("same_query_same_facts");
                }
                if self.rete.is_some() {
                    tags.push("rete_attached");
                }
                self.facts_changed_since.insert(*qi, false);
                self.queries_done.push((*qi, before.clone()));
                // the query itself may have derived facts
                let after = Sys::render(&self.facts);
                if after != before {
                    for (k, v) in self.facts_changed_since.iter_mut() {
                        if k != qi {
                            *v = true;
                        }
                    }
                }
                // Breadth-first answers are not a function of (rules, facts, configuration) on the unchanged code (two
                // freshly built engines disagree): queries under it are executed, so that what they leave behind is
                // part of the history, but only depth-first answers are judged.
                let judged = matches!(self.mcfg.strategy, rust_rule_engine::backward::search::SearchStrategy::DepthFirst);
                if judged && got != exp {
                    return Err(Mismatch::tagged(
                        if got == Ok(true) { "stale_positive_answer" } else { "answer_differs_from_fresh_engine" },
                        format!("program {}: query `{}` on facts {} answered {:?}, a freshly built engine answers {:?}; earlier on this engine: {:?}", programs()[self.prog].0, q, before, got, exp, self.queries_done),
                        &tags,
                    ));
                }
                // The facts handed back and the number of solutions are NOT compared: two freshly built engines already
                // differ in them (candidate rules come out of a HashSet; trying `a -> g` first for the goal `a` also
                // derives `g`), so they are not a function of (rules, facts, configuration) on the unchanged code.
                let _ = (&facts_exp, &got_full, &exp_full);
                Ok(hstr(&format!("{:?}", got)))
            }
        }
    }
    fn kind(op: &Op) -> String {
        match op {
            Op::Query(_) => "query",
            Op::SetLeaf(_, true) => "assert_fact",
            Op::SetLeaf(_, false) => "change_fact",
            Op::RemoveLeaf(_) => "remove_fact",
            Op::FreshFacts(_) => "fresh_facts",
            Op::RetractInRete => "retract_in_rete",
            Op::SetLeafString(_) => "change_fact_type",
            Op::FreshNested(_) => "fresh_nested_facts",
            Op::SetText(_) => "set_text_fact",
            Op::SetNum(_) => "set_number_fact",
            Op::Aggregate(_) => "aggregate_query",
            Op::SetConfig(_) => "set_config",
            Op::GrlQuery(_) => "grl_query",
        }
        .to_string()
    }
    fn model_state(&self) -> u64 {
        hstr(&format!("{}|{}|{:?}", self.prog, Sys::render(&self.facts), self.queries_done.iter().map(|q| q.0).collect::<Vec<_>>()))
    }
}

pub fn run(opts: &Opts) -> Vec<Report> {
    let mut out = vec![];
    let plan: Vec<(&str, bool, usize, usize, u8)> = match opts.tier {
        Tier::Quick => vec![("memo_on_len5", false, 5, 5, 0), ("rete_attached_len4", true, 4, 4, 0), ("value_shapes_len4", false, 4, 4, 1), ("aggregate_and_not_queries_len4", false, 4, 4, 2), ("config_changes_len5", false, 5, 5, 3)],
        Tier::Thorough => vec![("memo_on_len6", false, 6, 6, 0), ("rete_attached_len5", true, 5, 5, 0), ("value_shapes_len6", false, 6, 6, 1), ("aggregate_and_not_queries_len5", false, 5, 5, 2), ("config_changes_len6", false, 6, 6, 3)],
    };
    for (name, with_rete, depth, maxq, alphabet) in plan {
        if !crate::props::wants(opts, name) {
            continue;
        }
        let mut total = Report::new(name);
        for p in 0..programs().len() {
            // the GRL-executor alphabet compares solution counts: only on the program where they are a function of
            // max-solutions alone (two one-step derivations of the goal)
            if alphabet == 4 && programs()[p].0 != "two_ways" {
                continue;
            }
            let mut cfg = Config::new(name, depth);
            cfg.ctx = json!({"program": p, "program_name": programs()[p].0, "rules": programs()[p].1.iter().enumerate().map(|(i, r)| r.grl(&format!("R{}", i))).collect::<Vec<_>>(), "with_rete": with_rete, "max_queries": maxq, "alphabet": alphabet});
            // root candidates come out of a HashSet: a prefix may behave differently when re-executed
            cfg.tolerate_divergent_replay = true;
            total.merge(explore::explore(&move || Sys::with_alphabet(p, with_rete, maxq, alphabet), &cfg));
        }
        let expected: &[&str] = match alphabet {
            1 => &["query", "assert_fact", "change_fact_type", "remove_fact", "fresh_facts", "fresh_nested_facts", "set_text_fact", "set_number_fact"],
            2 => &["query", "aggregate_query", "assert_fact", "fresh_facts"],
            3 => &["query", "set_config", "assert_fact", "fresh_facts"],
            4 => &["grl_query", "fresh_facts"],
            _ => &["query", "assert_fact", "change_fact", "remove_fact", "fresh_facts"],
        };
        for l in expected {
            if !total.letters.contains_key(*l) {
                total.notes.push(format!("VACUITY: letter '{}' never enabled", l));
            }
        }
        total.bound = match alphabet {
            1 => format!("13 programs x all histories of length <= {} over query(2 goals) / leaf = true / leaf = the string \"true\" / remove leaf / flat empty store / one object fact F holding any subset of the leaves / a text fact set to one of four strings that differ in blanks only / a number fact set to 5, 5.0, the string 5 or 6 (a 13th program has rules conditioned on that text and on `F.n == 5`); default configuration (memoisation on)", depth),
            3 => format!("13 programs x all histories of length <= {} over query(2 goals) / set_config(DFS | BFS | DFS with max_solutions 3) / assert a leaf / empty store; the fresh engine is built with the configuration last asked for", depth),
            4 => format!("program two_ways x all histories of length <= {} over 4 GRL query texts (max-depth 5|10 x max-solutions 1|3) through GRLQueryExecutor::execute / store with both leaves; verdict and number of solutions vs a fresh engine", depth),
            2 => format!("13 programs x all histories of length <= {} over query(3 goals + a NOT goal) / query_aggregate(pattern that can match, matches nothing, does not parse) / assert a leaf / empty store; default configuration", depth),
            _ => format!("13 programs x all histories of length <= {} (<= {} queries) over query(3 goals) / assert, change, remove a leaf fact / replace the caller's facts by one of 4 stores{}; default configuration (memoisation on)", depth, maxq, if with_rete { " / retract in the attached RETE engine" } else { "" }),
        };
        out.push(total);
    }
    out
}

pub fn replay(case: &serde_json::Value) -> crate::props::ReplayResult {
    let p = case["ctx"]["program"].as_u64().unwrap_or(0) as usize;
    let wr = case["ctx"]["with_rete"].as_bool().unwrap_or(false);
    let mq = case["ctx"]["max_queries"].as_u64().unwrap_or(6) as usize;
    let ch = crate::props::choices_of(case);
    let al = case["ctx"]["alphabet"].as_u64().unwrap_or(0) as u8;
    crate::props::conv(explore::replay_repeated(&move || Sys::with_alphabet(p, wr, mq, al), &ch, 25))
}
