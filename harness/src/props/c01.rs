//! C01 — forward chaining runs a rule's actions iff its condition is true; assignments store the
//! value of their right-hand side. GRL text -> real parser -> KnowledgeBase -> RustRuleEngine, one case
//! per (program, fact store), compared with the documented semantics (refval.rs).
use crate::refval::{compare, read, Op, Store, V};
use crate::report::{hstr, Report, Violation};
use crate::{Opts, Tier};
use rust_rule_engine::engine::engine::{EngineConfig, RustRuleEngine};
use rust_rule_engine::engine::facts::Facts;
use rust_rule_engine::engine::knowledge_base::KnowledgeBase;
use rust_rule_engine::parser::grl::GRLParser;
use serde_json::json;
use std::collections::{BTreeMap, BTreeSet};
use std::sync::atomic::{AtomicUsize, Ordering};
use std::time::Instant;

pub struct RunOut {
    pub fired: usize,
    pub evaluated: usize,
    pub cycles: usize,
}

/// parse -> knowledge base -> engine (no wall-clock timeout) -> execute
pub fn run_grl(grl: &str, facts: &Facts, max_cycles: usize) -> Result<RunOut, (String, String)> {
    run_grl_via(grl, facts, max_cycles, "execute")
}

pub const ENTRY_POINTS: [&str; 2] = ["execute", "execute_with_callback"];

/// the same through a named entry point of the forward engine
pub fn run_grl_via(grl: &str, facts: &Facts, max_cycles: usize, entry: &str) -> Result<RunOut, (String, String)> {
    if entry == "execute_with_callback" {
        let rules = GRLParser::parse_rules(grl).map_err(|e| ("parse_error".to_string(), format!("{:?}", e)))?;
        let kb = KnowledgeBase::new("kb");
        for r in rules {
            kb.add_rule(r).map_err(|e| ("kb_error".to_string(), format!("{:?}", e)))?;
        }
        let mut e = RustRuleEngine::with_config(kb, EngineConfig { max_cycles, timeout: None, enable_stats: false, debug_mode: false });
        let mut n = 0usize;
        let r = e.execute_with_callback(facts, |_name, _facts| n += 1).map_err(|e| ("execute_error".to_string(), format!("{:?}", e)))?;
        if n != r.rules_fired {
            return Err(("callback_count_differs".to_string(), format!("callback ran {} times, rules_fired = {}", n, r.rules_fired)));
        }
        return Ok(RunOut { fired: r.rules_fired, evaluated: r.rules_evaluated, cycles: r.cycle_count });
    }
    let rules = GRLParser::parse_rules(grl).map_err(|e| ("parse_error".to_string(), format!("{:?}", e)))?;
    let kb = KnowledgeBase::new("kb");
    for r in rules {
        kb.add_rule(r).map_err(|e| ("kb_error".to_string(), format!("{:?}", e)))?;
    }
    let mut e = RustRuleEngine::with_config(kb, EngineConfig { max_cycles, timeout: None, enable_stats: false, debug_mode: false });
    let r = e.execute(facts).map_err(|e| ("execute_error".to_string(), format!("{:?}", e)))?;
    Ok(RunOut { fired: r.rules_fired, evaluated: r.rules_evaluated, cycles: r.cycle_count })
}

fn s(x: &str) -> V {
    V::Str(x.to_string())
}

fn stores() -> Vec<(&'static str, Store)> {
    let a: Vec<(&str, V)> = vec![
        ("F.i", V::Int(5)),
        ("F.j", V::Int(-3)),
        ("F.x", V::Float(2.5)),
        ("F.s", s("hello")),
        ("F.t", s("he")),
        ("F.b", V::Bool(true)),
        ("F.arr", V::Arr(vec![s("a"), s("b")])),
        ("F.n.k", V::Int(7)),
        ("g", V::Int(4)),
    ];
    let b: Vec<(&str, V)> = vec![
        ("F.i", V::Int(10)),
        ("F.j", V::Int(0)),
        ("F.x", V::Float(5.0)),
        ("F.s", s("")),
        ("F.t", s("lo")),
        ("F.b", V::Bool(false)),
        ("F.arr", V::Arr(vec![V::Int(5), V::Int(10)])),
        ("F.n.k", V::Int(5)),
        ("g", V::Int(-3)),
    ];
    // string values that spell the names of other facts (a flat key, a dotted path, an object): a field reference
    // is read once; its value is data, not another reference
    let c: Vec<(&str, V)> = vec![
        ("F.i", V::Int(5)),
        ("F.j", V::Int(-3)),
        ("F.x", V::Float(2.5)),
        ("F.s", s("g")),
        ("F.t", s("g")),
        ("F.b", V::Bool(true)),
        ("F.arr", V::Arr(vec![s("g"), s("F.i")])),
        ("F.n.k", V::Int(7)),
        ("g", V::Int(4)),
    ];
    let d: Vec<(&str, V)> = vec![
        ("F.i", V::Int(5)),
        ("F.j", V::Int(5)),
        ("F.x", V::Float(5.0)),
        ("F.s", s("F.i")),
        ("F.t", s("F")),
        ("F.b", V::Bool(false)),
        ("F.arr", V::Arr(vec![s("F.i")])),
        ("F.n.k", V::Int(5)),
        ("g", s("F.i")),
    ];
    // floats that differ by less than machine epsilon: == is exact
    let e: Vec<(&str, V)> = vec![
        ("F.i", V::Int(5)),
        ("F.j", V::Float(1e-17)),
        ("F.x", V::Float(0.1 + 0.2)),
        ("F.s", s("hello")),
        ("F.t", s("he")),
        ("F.b", V::Bool(true)),
        ("F.arr", V::Arr(vec![V::Float(0.3)])),
        ("F.n.k", V::Float(0.3)),
        ("g", V::Float(0.0)),
    ];
    let mk = |v: &Vec<(&str, V)>, nested: bool| Store { nested, vals: v.iter().map(|(k, x)| (k.to_string(), x.clone())).collect() };
    vec![
        ("E_near_equal_floats_nested", mk(&e, true)),
        ("E_near_equal_floats_flat", mk(&e, false)),
        ("A_nested", mk(&a, true)),
        ("A_flat", mk(&a, false)),
        ("B_nested", mk(&b, true)),
        ("B_flat", mk(&b, false)),
        ("empty", Store { nested: true, vals: BTreeMap::new() }),
        ("C_values_name_facts_nested", mk(&c, true)),
        ("C_values_name_facts_flat", mk(&c, false)),
        ("D_values_name_paths_nested", mk(&d, true)),
        ("D_values_name_paths_flat", mk(&d, false)),
    ]
}

#[derive(Clone, Debug)]
enum Rhs {
    Lit(V),
    Field(&'static str),
}

const LHS: [&str; 10] = ["F.i", "F.j", "F.x", "F.s", "F.t", "F.b", "F.arr", "F.n.k", "g", "F.zz"];

fn rhs_all() -> Vec<Rhs> {
    let mut v: Vec<Rhs> = vec![V::Int(5), V::Int(-3), V::Int(0), V::Int(10), V::Float(2.5), V::Float(5.0), V::Float(0.3), s("hello"), s("he"), s(""), s("lo"), V::Bool(true), V::Bool(false), V::Null, V::Arr(vec![s("a"), s("b")]), V::Arr(vec![V::Int(5), V::Int(10)])]
        .into_iter()
        .map(Rhs::Lit)
        .collect();
    for f in ["F.i", "F.j", "F.x", "F.s", "F.t", "F.n.k", "g", "F.b", "F.zz"] {
        v.push(Rhs::Field(f));
    }
    v
}

fn rule_text(cond: &str) -> String {
    format!("rule \"T\" {{\n  when\n    {}\n  then\n    Out.hit = true;\n}}", cond)
}

struct Acc {
    rep: Report,
    nontrivial: BTreeSet<u64>,
}

fn check_fired(acc: &mut Acc, family: &str, cond: &str, grl: &str, store_name: &str, store: &Store, expect: Option<bool>, tags: &[&str]) {
    acc.rep.count("evaluations", 1);
    let facts = store.to_facts(&["F", "Out"]);
    let out = run_grl(grl, &facts, 1);
    let case = json!({"sub": family, "grl": grl, "store": store.describe(), "store_name": store_name, "expect_fired": expect});
    let tagv: Vec<String> = tags.iter().map(|t| t.to_string()).collect();
    match out {
        Err((class, detail)) => {
            if expect.is_none() {
                acc.rep.count("undefined", 1);
                return;
            }
            acc.rep.violation(Violation { class: format!("typed_core_rule_rejected_{}", class), detail: format!("`{}`: {}", cond, detail), tags: tagv, case });
        }
        Ok(o) => {
            let hit = read(&facts, "Out.hit") == Some(V::Bool(true));
            if (o.fired == 1) != hit || o.fired > 1 {
                acc.rep.violation(Violation { class: "fired_count_disagrees_with_effects".into(), detail: format!("`{}`: rules_fired = {} but Out.hit = {:?}", cond, o.fired, read(&facts, "Out.hit")), tags: tagv, case });
                return;
            }
            match expect {
                None => acc.rep.count("undefined", 1),
                Some(e) => {
                    acc.nontrivial.insert(hstr(&format!("{}|{}", cond, store_name)));
                    acc.rep.count(if hit { "fired" } else { "not_fired" }, 1);
                    if e != hit {
                        acc.rep.violation(Violation {
                            class: if hit { "rule_fired_although_condition_false".into() } else { "rule_did_not_fire_although_condition_true".into() },
                            detail: format!("`{}` on store {}: documented meaning is {}, the engine {}", cond, store_name, e, if hit { "fired the rule" } else { "did not fire the rule" }),
                            tags: tagv,
                            case,
                        });
                    }
                }
            }
        }
    }
}

// ---------------------------------------------------------------- family 1: atoms x stores
fn family_atoms(tier: Tier) -> Acc {
    let mut acc = Acc { rep: Report::new("atoms_x_stores"), nontrivial: BTreeSet::new() };
    let st = stores();
    let _ = tier;
    for lhs in LHS {
        for op in Op::ALL {
            for rhs in rhs_all() {
                let rtext = match &rhs {
                    Rhs::Lit(v) => v.grl(),
                    Rhs::Field(f) => f.to_string(),
                };
                let cond = format!("{} {} {}", lhs, op.grl(), rtext);
                let grl = rule_text(&cond);
                for (sn, store) in &st {
                    let l = store.get(lhs);
                    let expect = match &rhs {
                        Rhs::Lit(v) => compare(&l, op, v),
                        // a right-hand side naming an absent field is not defined by the documentation
                        Rhs::Field(f) => {
                            if store.has(f) {
                                compare(&l, op, &store.get(f))
                            } else {
                                None
                            }
                        }
                    };
                    let mut tags = vec![];
                    if matches!(rhs, Rhs::Field(_)) {
                        tags.push("rhs_field_reference");
                    }
                    if !store.has(lhs) {
                        tags.push("lhs_absent");
                    }
                    if !store.nested {
                        tags.push("flat_layout");
                    }
                    acc.rep.tag(op.grl());
                    check_fired(&mut acc, "atoms_x_stores", &cond, &grl, sn, store, expect, &tags);
                }
            }
        }
    }
    acc.rep.bound = format!("every `lhs op rhs` with lhs in {:?}, all 10 operators, {} right-hand sides (typed literals + field references) x {} stores (5 value sets x nested/flat layout + empty; two value sets hold strings that spell the names of other facts, one holds floats that differ by less than machine epsilon)", LHS, rhs_all().len(), st.len());
    acc
}

// ---------------------------------------------------------------- family 2: boolean structure
#[derive(Clone, Debug)]
enum B {
    Leaf(u8),
    Not(Box<B>),
    And(Box<B>, Box<B>),
    Or(Box<B>, Box<B>),
}

const LEAVES: [(&str, bool); 3] = [("F.i == 5", true), ("F.i == 6", false), ("F.zz == null", true)];

impl B {
    fn eval(&self) -> bool {
        match self {
            B::Leaf(i) => LEAVES[*i as usize].1,
            B::Not(x) => !x.eval(),
            B::And(a, b) => a.eval() && b.eval(),
            B::Or(a, b) => a.eval() || b.eval(),
        }
    }
    fn prec(&self) -> u8 {
        match self {
            B::Or(..) => 1,
            B::And(..) => 2,
            B::Not(_) => 3,
            B::Leaf(_) => 4,
        }
    }
    fn depth(&self) -> usize {
        match self {
            B::Leaf(_) => 0,
            B::Not(x) => 1 + x.depth(),
            B::And(a, b) | B::Or(a, b) => 1 + a.depth().max(b.depth()),
        }
    }
    /// minimal parentheses (so precedence decides), `full` = parenthesise every binary node
    fn text(&self, full: bool) -> String {
        match self {
            B::Leaf(i) => LEAVES[*i as usize].0.to_string(),
            B::Not(x) => format!("!({})", x.text(full)),
            B::And(a, b) | B::Or(a, b) => {
                let op = if matches!(self, B::And(..)) { "&&" } else { "||" };
                let wrap = |c: &B, right: bool| {
                    let t = c.text(full);
                    let need = matches!(c, B::And(..) | B::Or(..)) && (full || c.prec() < self.prec() || (right && c.prec() == self.prec()));
                    if need {
                        format!("({})", t)
                    } else {
                        t
                    }
                };
                format!("{} {} {}", wrap(a, false), op, wrap(b, true))
            }
        }
    }
}

fn gen_bool(leaves: usize, memo: &mut BTreeMap<usize, Vec<B>>) -> Vec<B> {
    if let Some(v) = memo.get(&leaves) {
        return v.clone();
    }
    let mut base: Vec<B> = vec![];
    if leaves == 1 {
        for i in 0..3u8 {
            base.push(B::Leaf(i));
        }
    } else {
        for k in 1..leaves {
            let l = gen_bool(k, memo);
            let r = gen_bool(leaves - k, memo);
            for a in &l {
                for b in &r {
                    base.push(B::And(Box::new(a.clone()), Box::new(b.clone())));
                    base.push(B::Or(Box::new(a.clone()), Box::new(b.clone())));
                }
            }
        }
    }
    let mut out = base.clone();
    for b in base {
        out.push(B::Not(Box::new(b)));
    }
    memo.insert(leaves, out.clone());
    out
}

fn family_bool(tier: Tier) -> Acc {
    let mut acc = Acc { rep: Report::new("boolean_structure"), nontrivial: BTreeSet::new() };
    let store = stores().remove(0).1;
    let max_leaves = if tier == Tier::Quick { 3 } else { 4 };
    let mut memo = BTreeMap::new();
    let mut exprs: Vec<B> = vec![];
    for l in 1..=max_leaves {
        exprs.extend(gen_bool(l, &mut memo));
    }
    // chains (left-/right-deep) to 6 leaves, pure parenthesis nests and `!` nests to depth 6
    let mut texts: Vec<(String, bool, &'static str)> = vec![];
    for e in &exprs {
        if e.depth() > 6 {
            continue;
        }
        texts.push((e.text(false), e.eval(), "minimal_parens"));
        if matches!(e, B::And(..) | B::Or(..) | B::Not(_)) {
            texts.push((e.text(true), e.eval(), "full_parens"));
        }
    }
    for n in 1..=6usize {
        for (leaf, val) in LEAVES {
            texts.push((format!("{}{}{}", "(".repeat(n), leaf, ")".repeat(n)), val, "paren_nest"));
            let mut t = leaf.to_string();
            let mut v = val;
            for _ in 0..n {
                t = format!("!({})", t);
                v = !v;
            }
            texts.push((t, v, "not_nest"));
        }
        // a || b && c chains: && binds tighter
        let mut chain = String::from("F.i == 6");
        let mut val = false;
        for k in 0..n {
            if k % 2 == 0 {
                chain = format!("{} || F.i == 5 && F.i == 6", chain);
                val = val || (true && false);
            } else {
                chain = format!("{} || F.zz == null && F.i == 5", chain);
                val = true;
            }
        }
        texts.push((chain, val, "or_and_chain"));
    }
    let next = AtomicUsize::new(0);
    let accs: Vec<Acc> = std::thread::scope(|sc| {
        let mut hs = vec![];
        for _ in 0..crate::threads() {
            hs.push(sc.spawn(|| {
                let mut a = Acc { rep: Report::new("boolean_structure"), nontrivial: BTreeSet::new() };
                loop {
                    let k = next.fetch_add(1, Ordering::SeqCst);
                    if k >= texts.len() {
                        break;
                    }
                    let (t, v, tag) = &texts[k];
                    a.rep.tag(tag);
                    check_fired(&mut a, "boolean_structure", t, &rule_text(t), "A_nested", &store, Some(*v), &[tag]);
                }
                a
            }));
        }
        hs.into_iter().map(|h| h.join().unwrap_or_else(|_| crate::explore::machinery("C01 worker panicked"))).collect()
    });
    for a in accs {
        acc.rep.merge(a.rep);
        acc.nontrivial.extend(a.nontrivial);
    }
    acc.rep.bound = format!("every condition tree with <= {} leaves over {{&&, ||}} with `!` on any subtree, with minimal and with full parentheses, leaves from {{true atom, false atom, absent-field null test}} in every assignment; parenthesis / `!` nests to depth 6; || / && chains", max_leaves);
    acc
}

// ---------------------------------------------------------------- family 3: arithmetic
#[derive(Clone, Copy, Debug, PartialEq)]
enum Operand {
    Fi,
    Fx,
    Fk,
    Li,
    Lf,
}

impl Operand {
    fn text(&self) -> &'static str {
        match self {
            Operand::Fi => "F.i",
            Operand::Fx => "F.x",
            Operand::Fk => "F.k",
            Operand::Li => "3",
            Operand::Lf => "1.5",
        }
    }
    fn val(&self) -> (f64, bool) {
        match self {
            Operand::Fi => (7.0, true),
            Operand::Fx => (2.5, false),
            Operand::Fk => (4.0, true),
            Operand::Li => (3.0, true),
            Operand::Lf => (1.5, false),
        }
    }
    fn is_field(&self) -> bool {
        matches!(self, Operand::Fi | Operand::Fx | Operand::Fk)
    }
}

/// usual precedence (* / % over + -), left associative; None = outside the defined domain
fn eval_arith(operands: &[Operand], ops: &[char]) -> Option<f64> {
    // first pass: * / %
    let mut vals: Vec<(f64, bool)> = vec![operands[0].val()];
    let mut pend: Vec<char> = vec![];
    for (i, op) in ops.iter().enumerate() {
        let r = operands[i + 1].val();
        match op {
            '*' | '/' | '%' => {
                let l = vals.pop().unwrap();
                let v = match op {
                    '*' => (l.0 * r.0, l.1 && r.1),
                    '/' => {
                        if r.0 == 0.0 {
                            return None;
                        }
                        let q = l.0 / r.0;
                        (q, l.1 && r.1 && q.fract() == 0.0)
                    }
                    _ => {
                        // `%` is defined here for non-negative whole operands only
                        if !(l.1 && r.1) || l.0 < 0.0 || r.0 <= 0.0 {
                            return None;
                        }
                        (l.0 % r.0, true)
                    }
                };
                vals.push(v);
            }
            _ => {
                pend.push(*op);
                vals.push(r);
            }
        }
    }
    let mut acc = vals[0].0;
    for (i, op) in pend.iter().enumerate() {
        if *op == '+' {
            acc += vals[i + 1].0;
        } else {
            acc -= vals[i + 1].0;
        }
    }
    if acc.is_finite() {
        Some(acc)
    } else {
        None
    }
}

/// one binary operation on (value, is-whole-number); None = outside the defined domain
fn binop(l: (f64, bool), op: char, r: (f64, bool)) -> Option<(f64, bool)> {
    Some(match op {
        '+' => (l.0 + r.0, l.1 && r.1),
        '-' => (l.0 - r.0, l.1 && r.1),
        '*' => (l.0 * r.0, l.1 && r.1),
        '/' => {
            if r.0 == 0.0 {
                return None;
            }
            let q = l.0 / r.0;
            (q, l.1 && r.1 && q.fract() == 0.0)
        }
        _ => {
            if !(l.1 && r.1) || l.0 < 0.0 || r.0 <= 0.0 {
                return None;
            }
            (l.0 % r.0, true)
        }
    })
}

fn arith_store() -> Store {
    Store { nested: true, vals: [("F.i", V::Int(7)), ("F.x", V::Float(2.5)), ("F.k", V::Int(4))].iter().map(|(k, v)| (k.to_string(), v.clone())).collect() }
}

fn check_assign(acc: &mut Acc, family: &str, expr: &str, expect: Option<f64>, tags: &[&str]) {
    acc.rep.count("evaluations", 1);
    let store = arith_store();
    let facts = store.to_facts(&["F", "Out"]);
    let grl = format!("rule \"T\" {{\n  when\n    F.i == 7\n  then\n    Out.v = {};\n}}", expr);
    let case = json!({"sub": family, "grl": grl, "store": store.describe(), "expect_value": expect});
    let tagv: Vec<String> = tags.iter().map(|t| t.to_string()).collect();
    let Some(exp) = expect else {
        let _ = run_grl(&grl, &facts, 1);
        acc.rep.count("undefined", 1);
        return;
    };
    match run_grl(&grl, &facts, 1) {
        Err((class, detail)) => acc.rep.violation(Violation { class: format!("assignment_rejected_{}", class), detail: format!("`Out.v = {}`: {}", expr, detail), tags: tagv, case }),
        Ok(o) => {
            let got = read(&facts, "Out.v");
            acc.nontrivial.insert(hstr(&format!("assign|{}", expr)));
            let ok = o.fired == 1 && got.as_ref().and_then(|v| v.num()).map(|g| (g - exp).abs() < 1e-9).unwrap_or(false);
            if !ok {
                acc.rep.violation(Violation { class: "assignment_stored_wrong_value".into(), detail: format!("`Out.v = {}` with F.i=7, F.x=2.5, F.k=4 stored {:?} (fired {}), the expression's value is {}", expr, got, o.fired, exp), tags: tagv, case });
            }
        }
    }
}

fn family_arith(tier: Tier) -> Acc {
    let mut acc = Acc { rep: Report::new("arithmetic"), nontrivial: BTreeSet::new() };
    let operands = [Operand::Fi, Operand::Fx, Operand::Fk, Operand::Li, Operand::Lf];
    let opchars = ['+', '-', '*', '/', '%'];
    let max_ops = if tier == Tier::Quick { 2 } else { 3 };
    let mut seqs: Vec<(Vec<Operand>, Vec<char>)> = vec![];
    fn rec(operands: &[Operand], opchars: &[char], cur: (Vec<Operand>, Vec<char>), left: usize, out: &mut Vec<(Vec<Operand>, Vec<char>)>) {
        if !cur.1.is_empty() {
            out.push(cur.clone());
        }
        if left == 0 {
            return;
        }
        for op in opchars {
            for o in operands {
                let mut n = cur.clone();
                n.0.push(*o);
                n.1.push(*op);
                rec(operands, opchars, n, left - 1, out);
            }
        }
    }
    for o in operands {
        rec(&operands, &opchars, (vec![o], vec![]), max_ops, &mut seqs);
    }
    let store = arith_store();
    let next = AtomicUsize::new(0);
    let accs: Vec<Acc> = std::thread::scope(|sc| {
        let mut hs = vec![];
        for _ in 0..crate::threads() {
            hs.push(sc.spawn(|| {
                let mut a = Acc { rep: Report::new("arithmetic"), nontrivial: BTreeSet::new() };
                loop {
                    let k = next.fetch_add(1, Ordering::SeqCst);
                    if k >= seqs.len() {
                        break;
                    }
                    let (ops_, chs) = &seqs[k];
                    let mut text = ops_[0].text().to_string();
                    for (i, c) in chs.iter().enumerate() {
                        text.push_str(&format!(" {} {}", c, ops_[i + 1].text()));
                    }
                    let val = eval_arith(ops_, chs);
                    // (b) as the right-hand side of an assignment (any first operand)
                    check_assign(&mut a, "arithmetic", &text, val, &["assignment_rhs"]);
                    // parenthesised variants of the two-operator sequences: (a op b) op c and a op (b op c)
                    if chs.len() == 2 {
                        let (va, vb, vc) = (ops_[0].val(), ops_[1].val(), ops_[2].val());
                        let left_first = binop(va, chs[0], vb).and_then(|x| binop(x, chs[1], vc)).map(|x| x.0).filter(|x| x.is_finite());
                        let right_first = binop(vb, chs[1], vc).and_then(|x| binop(va, chs[0], x)).map(|x| x.0).filter(|x| x.is_finite());
                        let t1 = format!("({} {} {}) {} {}", ops_[0].text(), chs[0], ops_[1].text(), chs[1], ops_[2].text());
                        let t2 = format!("{} {} ({} {} {})", ops_[0].text(), chs[0], ops_[1].text(), chs[1], ops_[2].text());
                        for (t, v) in [(t1, left_first), (t2, right_first)] {
                            check_assign(&mut a, "arithmetic", &t, v, &["assignment_rhs", "parenthesised"]);
                            if let Some(v) = v {
                                for (cmp, cst, exp) in [(">=", v - 0.25, true), ("<", v - 0.25, false)] {
                                    let cond = format!("{} {} {}", t, cmp, V::Float(cst).grl());
                                    check_fired(&mut a, "arithmetic", &cond, &rule_text(&cond), "arith", &store, Some(exp), &["condition_lhs", "parenthesised"]);
                                }
                            }
                        }
                    }
                    // (a) on the left of a comparison (field-first and literal-first)
                    {
                        if let Some(v) = val {
                            for (cmp, c, exp) in [(">=", v - 0.25, true), (">=", v + 0.25, false), ("<", v + 0.25, true), ("<", v - 0.25, false)] {
                                let cond = format!("{} {} {}", text, cmp, V::Float(c).grl());
                                check_fired(&mut a, "arithmetic", &cond, &rule_text(&cond), "arith", &store, Some(exp), &["condition_lhs"]);
                            }
                        }
                    }
                }
                a
            }));
        }
        hs.into_iter().map(|h| h.join().unwrap_or_else(|_| crate::explore::machinery("C01 worker panicked"))).collect()
    });
    for a in accs {
        acc.rep.merge(a.rep);
        acc.nontrivial.extend(a.nontrivial);
    }
    // documented forms with parentheses / signed literals (GRL_SYNTAX.md "Arithmetic Expressions", "Arithmetic Operations")
    let forms: Vec<(&str, f64)> = vec![
        ("(F.i - F.k) * 2", 6.0),
        ("F.i * (F.k - 3)", 7.0),
        ("F.i * (1 - 0.5)", 3.5),
        ("2 * (3 + (4 - 1))", 12.0),
        ("F.i * -1", -7.0),
        ("F.i - -2", 9.0),
        ("-1 * F.i", -7.0),
        ("(F.i)", 7.0),
        ("(F.i + F.k) / (F.k - 2)", 5.5),
    ];
    for (text, v) in forms {
        check_assign(&mut acc, "arithmetic", text, Some(v), &["assignment_rhs", "arith_parenthesised_or_signed"]);
        if (text.starts_with('(') || text.starts_with("F.")) && text != "(F.i)" {
            for (cmp, c, exp) in [(">=", v - 0.25, true), (">=", v + 0.25, false)] {
                let cond = format!("{} {} {}", text, cmp, V::Float(c).grl());
                let tag = if text.contains('(') { "arith_parenthesised_in_condition" } else { "arith_signed_literal_in_condition" };
                check_fired(&mut acc, "arithmetic", &cond, &rule_text(&cond), "arith", &store, Some(exp), &["condition_lhs", tag]);
            }
        }
    }
    acc.rep.bound = format!("every operand/operator sequence with <= {} binary operators from {{+,-,*,/,%}} over {{F.i=7, F.x=2.5, F.k=4, 3, 1.5}} as an assignment right-hand side and (field-first) on the left of 4 comparisons around its value; 9 documented parenthesised / signed forms", max_ops);
    acc
}

// ---------------------------------------------------------------- family 3c: integer arithmetic beyond 32 bits
/// Integer operands whose sums, differences and products leave the 32-bit range (but stay exactly representable,
/// |result| <= 2^53): the result is the exact integer, in a condition and when stored by an assignment and read by a
/// later rule.
fn family_large_integers(_tier: Tier) -> Acc {
    let mut acc = Acc { rep: Report::new("large_integers"), nontrivial: BTreeSet::new() };
    let fields: Vec<(&str, i64)> = vec![("F.p", 60_000), ("F.q", 50_000), ("F.m", 2_147_483_647), ("F.n", -2_147_483_648), ("F.one", 1), ("F.w", 4_294_967_296), ("F.t", 3_000_000_000)];
    let store = Store { nested: true, vals: fields.iter().map(|(k, v)| (k.to_string(), V::Int(*v))).collect() };
    let mut operands: Vec<(String, i64)> = fields.iter().map(|(k, v)| (k.to_string(), *v)).collect();
    operands.push(("2".to_string(), 2));
    operands.push(("100000".to_string(), 100_000));
    operands.push(("2147483648".to_string(), 2_147_483_648));
    let limit: i128 = 1 << 53;
    for (ta, va) in &operands {
        for (tb, vb) in &operands {
            for op in ['+', '-', '*'] {
                let exact: i128 = match op {
                    '+' => *va as i128 + *vb as i128,
                    '-' => *va as i128 - *vb as i128,
                    _ => *va as i128 * *vb as i128,
                };
                if exact.abs() > limit {
                    continue;
                }
                let exact = exact as i64;
                let expr = format!("{} {} {}", ta, op, tb);
                let tag: &[&str] = if exact.abs() > i32::MAX as i64 { &["result_beyond_32_bits"] } else { &["result_within_32_bits"] };
                // in a condition (field-first or literal-first, both are in the typed core)
                for (cmp, rhs, exp) in [("==", exact, true), ("!=", exact, false), ("==", exact + 1, false), (">=", exact, true), ("<", exact, false)] {
                    let cond = format!("{} {} {}", expr, cmp, rhs);
                    check_fired(&mut acc, "large_integers", &cond, &rule_text(&cond), "large", &store, Some(exp), tag);
                }
                // stored by an assignment, read back by a later rule
                acc.rep.count("evaluations", 1);
                let grl = format!("rule \"Store\" salience 10 no-loop {{\n  when\n    F.one == 1\n  then\n    Out.v = {};\n}}\nrule \"Read\" no-loop {{\n  when\n    Out.v == {}\n  then\n    Out.hit = true;\n}}", expr, exact);
                let facts = store.to_facts(&["F", "Out"]);
                let case = json!({"sub": "large_integers", "grl": grl, "store": store.describe(), "expect_fired_total": 2});
                match run_grl(&grl, &facts, 3) {
                    Err((class, detail)) => acc.rep.violation(Violation { class: format!("assignment_rejected_{}", class), detail: format!("`Out.v = {}`: {}", expr, detail), tags: tag.iter().map(|t| t.to_string()).collect(), case }),
                    Ok(o) => {
                        acc.nontrivial.insert(hstr(&format!("store|{}", expr)));
                        let hit = read(&facts, "Out.hit") == Some(V::Bool(true));
                        if !hit || o.fired != 2 {
                            acc.rep.violation(Violation { class: "assignment_stored_wrong_value".into(), detail: format!("`Out.v = {}` stored {:?}; the later rule `Out.v == {}` {} (rules fired: {})", expr, read(&facts, "Out.v"), exact, if hit { "fired" } else { "did not fire" }, o.fired), tags: tag.iter().map(|t| t.to_string()).collect(), case });
                        }
                    }
                }
            }
        }
    }
    // integer / integer: exact quotients, and a small dividend over a huge divisor (a positive quotient below machine
    // epsilon is still positive)
    for (ta, va, tb, vb) in [("F.one", 1i64, "F.huge", 5_000_000_000_000_000i64), ("3", 3, "F.huge", 5_000_000_000_000_000), ("F.t", 3_000_000_000, "F.p", 60_000), ("F.w", 4_294_967_296, "2", 2), ("F.one", 1, "F.m", 2_147_483_647)] {
        let mut st = store.clone();
        st.vals.insert("F.huge".to_string(), V::Int(5_000_000_000_000_000));
        let q = va as f64 / vb as f64;
        let expr = format!("{} / {}", ta, tb);
        for (cmp, rhs, exp) in [(">", "0".to_string(), q > 0.0), ("==", "0".to_string(), q == 0.0), ("<=", "0".to_string(), q <= 0.0), (">=", "1".to_string(), q >= 1.0)] {
            let cond = format!("{} {} {}", expr, cmp, rhs);
            check_fired(&mut acc, "large_integers", &cond, &rule_text(&cond), "large", &st, Some(exp), &["integer_division"]);
        }
        if va % vb == 0 {
            let cond = format!("{} == {}", expr, va / vb);
            check_fired(&mut acc, "large_integers", &cond, &rule_text(&cond), "large", &st, Some(true), &["integer_division"]);
        }
    }
    acc.rep.bound = format!("every `a op b` with op in {{+,-,*}} over {} integer operands (fields and literals from 1 to 2^32, incl. i32::MAX and i32::MIN) whose exact result is within +-2^53: ==, !=, >=, < against the exact integer, and assignment followed by a rule that reads the stored value; integer quotients (exact, and 1 / 5e15 > 0)", operands.len());
    acc
}

// ---------------------------------------------------------------- family 3b: string concatenation with +
/// GRL_SYNTAX.md "String Concatenation": `+` between strings concatenates (`"Order " + Order.id`). Defined here:
/// every operand is a string and, at each step of the left-to-right evaluation, not both operands look numeric
/// (two numeric-looking strings are added as numbers by the evaluator: undocumented, left open).
fn family_concat(tier: Tier) -> Acc {
    let mut acc = Acc { rep: Report::new("string_concatenation"), nontrivial: BTreeSet::new() };
    let store = Store { nested: true, vals: [("F.s", s("ab")), ("F.t", s("Order ")), ("F.d", s("1042")), ("F.i", V::Int(7))].iter().map(|(k, v)| (k.to_string(), v.clone())).collect() };
    let operands: Vec<(&str, &str)> = vec![("F.s", "ab"), ("F.t", "Order "), ("F.d", "1042"), ("\"x\"", "x"), ("\" \"", " "), ("\"7\"", "7"), ("\"a b\"", "a b")];
    let numeric = |t: &str| t.parse::<f64>().is_ok();
    let max_len = if tier == Tier::Quick { 3 } else { 4 };
    let mut seqs: Vec<Vec<usize>> = (0..operands.len()).map(|i| vec![i]).collect();
    let mut all: Vec<Vec<usize>> = vec![];
    for _ in 1..max_len {
        let mut next = vec![];
        for q in &seqs {
            for i in 0..operands.len() {
                let mut n = q.clone();
                n.push(i);
                next.push(n);
            }
        }
        all.extend(next.iter().cloned());
        seqs = next;
    }
    for q in all {
        let text = q.iter().map(|&i| operands[i].0).collect::<Vec<_>>().join(" + ");
        // reference: left-to-right
        let mut cur = operands[q[0]].1.to_string();
        let mut defined = true;
        for &i in &q[1..] {
            let r = operands[i].1;
            if numeric(&cur) && numeric(r) {
                defined = false;
                break;
            }
            cur = format!("{}{}", cur, r);
        }
        // assignment
        acc.rep.count("evaluations", 1);
        let facts = store.to_facts(&["F", "Out"]);
        let grl = format!("rule \"T\" {{\n  when\n    F.i == 7\n  then\n    Out.v = {};\n}}", text);
        let case = json!({"sub": "string_concatenation", "grl": grl, "store": store.describe(), "expect_string": if defined { Some(cur.clone()) } else { None }});
        let out = run_grl(&grl, &facts, 1);
        if !defined {
            acc.rep.count("undefined", 1);
        } else {
            acc.nontrivial.insert(hstr(&format!("concat|{}", text)));
            match out {
                Err((class, detail)) => acc.rep.violation(Violation { class: format!("assignment_rejected_{}", class), detail: format!("`Out.v = {}`: {}", text, detail), tags: vec!["string_concatenation".into()], case }),
                Ok(o) => {
                    let got = read(&facts, "Out.v");
                    if o.fired != 1 || got != Some(V::Str(cur.clone())) {
                        acc.rep.violation(Violation { class: "assignment_stored_wrong_value".into(), detail: format!("`Out.v = {}` stored {:?} (fired {}), the concatenation is {:?}", text, got, o.fired, cur), tags: vec!["string_concatenation".into()], case });
                    }
                }
            }
        }
        // concatenation inside conditions is not documented (GRL_SYNTAX.md shows it in actions only): not driven
    }
    acc.rep.bound = format!("every `a + b{}` over 7 string operands (3 fields incl. a numeric-looking one, 4 literals incl. blank and numeric-looking) as an assignment right-hand side (the documented position)", if max_len == 3 { " [+ c]" } else { " [+ c [+ d]]" });
    acc
}

fn finish(mut a: Acc, t0: Instant) -> Report {
    a.rep.count("nontrivial", a.nontrivial.len() as u64);
    a.rep.wall_s = t0.elapsed().as_secs_f64();
    if a.rep.samples.is_empty() {
        a.rep.sample(json!({"note": "see bound"}));
    }
    a.rep
}

pub fn run(opts: &Opts) -> Vec<Report> {
    let mut out = vec![];
    if crate::props::wants(opts, "atoms_x_stores") {
        let t0 = Instant::now();
        let mut a = family_atoms(opts.tier);
        a.rep.sample(json!({"grl": rule_text("F.s startsWith F.t"), "store": stores()[0].1.describe()}));
        out.push(finish(a, t0));
    }
    if crate::props::wants(opts, "boolean_structure") {
        let t0 = Instant::now();
        let mut a = family_bool(opts.tier);
        a.rep.sample(json!({"grl": rule_text("!(F.i == 6) && (F.zz == null || F.i == 6)")}));
        out.push(finish(a, t0));
    }
    if crate::props::wants(opts, "arithmetic") {
        let t0 = Instant::now();
        let mut a = family_arith(opts.tier);
        a.rep.sample(json!({"grl": rule_text("F.i * 3 - F.x >= 18.25")}));
        out.push(finish(a, t0));
    }
    if crate::props::wants(opts, "large_integers") {
        let t0 = Instant::now();
        let mut a = family_large_integers(opts.tier);
        a.rep.sample(json!({"grl": rule_text("F.p * F.q == 3000000000"), "store": "F.p = 60000, F.q = 50000"}));
        out.push(finish(a, t0));
    }
    if crate::props::wants(opts, "string_concatenation") {
        let t0 = Instant::now();
        let mut a = family_concat(opts.tier);
        a.rep.sample(json!({"grl": "rule \"T\" { when F.i == 7 then Out.v = F.t + F.d; }", "expect": "Order 1042"}));
        out.push(finish(a, t0));
    }
    out.extend(crate::props::c02::run_dataflow(opts));
    out
}

pub fn replay(case: &serde_json::Value) -> crate::props::ReplayResult {
    if case["sub"].as_str() == Some("dataflow") {
        return crate::props::c02::replay(case);
    }
    let grl = case["grl"].as_str().unwrap_or("").to_string();
    let nested = case["store"]["layout"].as_str() != Some("flat");
    // values are re-parsed from their GRL rendering
    let mut vals = BTreeMap::new();
    if let Some(m) = case["store"]["values"].as_object() {
        for (k, v) in m {
            vals.insert(k.clone(), parse_v(v.as_str().unwrap_or("null")));
        }
    }
    let store = Store { nested, vals };
    let facts = store.to_facts(&["F", "Out"]);
    let hist = vec![grl.clone(), format!("{}", case["store"])];
    match run_grl(&grl, &facts, 1) {
        Err((c, d)) => Err((hist, c, d)),
        Ok(o) => {
            if let Some(e) = case["expect_fired"].as_bool() {
                let hit = read(&facts, "Out.hit") == Some(V::Bool(true));
                if hit != e || (o.fired == 1) != hit {
                    return Err((hist, "condition_verdict_differs".into(), format!("expected fired={}, got fired={} (rules_fired {})", e, hit, o.fired)));
                }
            }
            if let Some(n) = case["expect_fired_total"].as_u64() {
                let hit = read(&facts, "Out.hit") == Some(V::Bool(true));
                if !hit || o.fired as u64 != n {
                    return Err((hist, "assignment_stored_wrong_value".into(), format!("stored {:?}, the reading rule {} (rules fired {})", read(&facts, "Out.v"), if hit { "fired" } else { "did not fire" }, o.fired)));
                }
            }
            if let Some(e) = case["expect_string"].as_str() {
                let got = read(&facts, "Out.v");
                if got != Some(V::Str(e.to_string())) {
                    return Err((hist, "assignment_stored_wrong_value".into(), format!("expected {:?}, got {:?}", e, got)));
                }
            }
            if let Some(e) = case["expect_value"].as_f64() {
                let got = read(&facts, "Out.v").and_then(|v| v.num());
                if got.map(|g| (g - e).abs() < 1e-9) != Some(true) {
                    return Err((hist, "assignment_stored_wrong_value".into(), format!("expected {}, got {:?}", e, got)));
                }
            }
            Ok(hist)
        }
    }
}

fn parse_v(t: &str) -> V {
    let t = t.trim();
    if t == "null" {
        V::Null
    } else if t == "true" || t == "false" {
        V::Bool(t == "true")
    } else if let Some(x) = t.strip_prefix('"').and_then(|r| r.strip_suffix('"')) {
        V::Str(x.to_string())
    } else if let Some(inner) = t.strip_prefix('[').and_then(|r| r.strip_suffix(']')) {
        V::Arr(if inner.trim().is_empty() { vec![] } else { inner.split(',').map(parse_v).collect() })
    } else if let Ok(i) = t.parse::<i64>() {
        V::Int(i)
    } else {
        V::Float(t.parse().unwrap_or(0.0))
    }
}
