//! C03 — execute always returns, within max_cycles, at a fixpoint or at the bound.
//! (1) the C02 attribute product with the fixpoint clause; (2) non-quiescing families x every
//! max_cycles in 0..=64 x both entry points, each batch in a watched child process.
use crate::isolate::{self, Outcome};
use crate::props::c02::{self, ActK, CondK, EModel, RSpec, Vars};
use crate::report::{hstr, Report, Violation};
use crate::{Opts, Tier};
use serde_json::json;
use std::collections::BTreeSet;
use std::time::{Duration, Instant};

fn families() -> Vec<(String, Vec<RSpec>)> {
    let mut v = vec![];
    let mk = |name: &str, cond: CondK, act: ActK, no_loop: bool, sal: i32| {
        let mut r = RSpec::plain(name);
        r.cond = cond;
        r.act = act;
        r.no_loop = no_loop;
        r.salience = sal;
        r
    };
    for k in 0..=6i64 {
        for nl in [false, true] {
            v.push((format!("counter_below_{}{}", k, if nl { "_no_loop" } else { "" }), vec![mk("Inc", CondK::VarLt(0, k), ActK::IncVar(0), nl, 0)]));
        }
    }
    for nl in [false, true] {
        v.push((format!("unbounded_counter{}", if nl { "_no_loop" } else { "" }), vec![mk("Inc", CondK::True, ActK::IncVar(0), nl, 0)]));
        v.push((format!("flip_flop{}", if nl { "_no_loop" } else { "" }), vec![mk("A", CondK::VarEq(0, 0), ActK::SetVar(0, 1), nl, 0), mk("B", CondK::VarEq(0, 1), ActK::SetVar(0, 0), nl, 0)]));
        v.push((format!("flip_flop_reverse_salience{}", if nl { "_no_loop" } else { "" }), vec![mk("A", CondK::VarEq(0, 0), ActK::SetVar(0, 1), nl, 0), mk("B", CondK::VarEq(0, 1), ActK::SetVar(0, 0), nl, 5)]));
        v.push((format!("ring3{}", if nl { "_no_loop" } else { "" }), vec![mk("A", CondK::VarEq(0, 0), ActK::SetVar(0, 1), nl, 0), mk("B", CondK::VarEq(0, 1), ActK::SetVar(0, 2), nl, 0), mk("C", CondK::VarEq(0, 2), ActK::SetVar(0, 0), nl, 0)]));
        v.push((format!("ring3_reverse{}", if nl { "_no_loop" } else { "" }), vec![mk("A", CondK::VarEq(0, 0), ActK::SetVar(0, 1), nl, 1), mk("B", CondK::VarEq(0, 1), ActK::SetVar(0, 2), nl, 2), mk("C", CondK::VarEq(0, 2), ActK::SetVar(0, 0), nl, 3)]));
        let mut a = mk("A", CondK::True, ActK::IncVar(0), nl, 0);
        a.act2 = ActK::IncVar(1);
        v.push((format!("two_always_true{}", if nl { "_no_loop" } else { "" }), vec![a, mk("B", CondK::True, ActK::IncVar(2), false, -1)]));
        // arithmetic that leaves the comfortable range while the rule keeps firing: doubling a counter 64 times, and a
        // remainder whose divisor another rule counts down to zero (the call still returns; values are not compared)
        v.push((format!("doubling_counter{}", if nl { "_no_loop" } else { "" }), vec![mk("Seed", CondK::VarEq(0, 0), ActK::SetVar(0, 1), true, 10), mk("Double", CondK::VarLt(9, 1), ActK::DoubleVar(0), nl, 0)]));
        v.push((format!("remainder_by_countdown{}", if nl { "_no_loop" } else { "" }), vec![mk("Seed", CondK::VarEq(1, 0), ActK::SetVar(1, 3), true, 10), mk("Down", CondK::VarLt(9, 1), ActK::DecVar(1), nl, 5), mk("Mod", CondK::VarLt(9, 1), ActK::ModBy(2, 1), nl, 0)]));
        // rules without any action: a firing is a firing even if it changes nothing
        v.push((format!("actionless_always_true{}", if nl { "_no_loop" } else { "" }), vec![mk("Quiet", CondK::True, ActK::Silent, nl, 0)]));
        v.push((format!("actionless_and_counter{}", if nl { "_no_loop" } else { "" }), vec![mk("Inc", CondK::VarLt(0, 3), ActK::IncVar(0), nl, 5), mk("Quiet", CondK::VarEq(0, 3), ActK::Silent, nl, 0)]));
    }
    v
}

const MAXC: usize = 65; // 0..=64

fn decode(k: usize) -> (usize, usize, bool, bool) {
    let nf = families().len();
    let fam = k % nf;
    let rest = k / nf;
    let mc = rest % MAXC;
    let rest = rest / MAXC;
    (fam, mc, rest % 2 == 1, rest / 2 == 1) // family, max_cycles, callback, via_grl
}

fn total_cases() -> usize {
    families().len() * MAXC * 4
}

fn describe(k: usize) -> serde_json::Value {
    let (fam, mc, cb, grl) = decode(k);
    let f = &families()[fam];
    json!({"sub": "non_quiescing_families", "case": k, "family": f.0, "rules": f.1.iter().map(|r| r.grl().unwrap()).collect::<Vec<_>>(), "max_cycles": mc, "entry_point": if cb { "execute_with_callback" } else { "execute" }, "via_grl": grl})
}

fn run_case(k: usize) -> serde_json::Value {
    let (fam, mc, cb, grl) = decode(k);
    let rules = families()[fam].1.clone();
    let mut eng = match c02::build_engine(&rules, grl, mc) {
        Ok(e) => e,
        Err(e) => return json!({"bad": "rule_set_rejected", "detail": e}),
    };
    let facts = c02::mk_facts();
    let mut em = EModel::default();
    let exp = c02::ref_forward(&rules, &mut em, &Vars::default(), "MAIN", chrono::Utc::now(), mc);
    let mut cb_count = 0usize;
    let res = if cb { eng.execute_with_callback(&facts, |_n, _f| cb_count += 1) } else { eng.execute(&facts) };
    let res = match res {
        Ok(r) => r,
        Err(e) => return json!({"bad": "execute_failed", "detail": format!("{:?}", e)}),
    };
    let seq = c02::read_seq(&facts);
    let bad = |c: &str, d: String| json!({"bad": c, "detail": d});
    if res.cycle_count > mc {
        return bad("cycle_count_exceeds_max_cycles", format!("cycle_count {} > max_cycles {}", res.cycle_count, mc));
    }
    let silent = rules.iter().any(|r| r.act == ActK::Silent);
    if !silent && (res.rules_fired != seq.len() || (cb && cb_count != seq.len())) {
        return bad("fired_count_differs_from_firings", format!("rules_fired {} / callback count {} / firings observed {}", res.rules_fired, cb_count, seq.len()));
    }
    if cb && cb_count != res.rules_fired {
        return bad("fired_count_differs_from_firings", format!("rules_fired {} / callback count {}", res.rules_fired, cb_count));
    }
    if res.cycle_count != exp.cycles {
        let why = if res.cycle_count < exp.cycles { "stopped although the last pass fired a rule (or skipped a pass)" } else { "kept going after a pass that fired nothing" };
        return bad("cycle_count_differs", format!("cycle_count {} but the pass loop makes {} passes (firings per pass {:?}): {}", res.cycle_count, exp.cycles, exp.passes, why));
    }
    if seq != exp.seq {
        return bad("firing_sequence_differs", format!("fired {:?}, the documented pass loop gives {:?}", seq, exp.seq));
    }
    if res.rules_fired != exp.fired {
        return bad("fired_count_differs_from_firings", format!("rules_fired {} but the pass loop fires {} rules (firings per pass {:?})", res.rules_fired, exp.fired, exp.passes));
    }
    if res.cycle_count < mc {
        // fixpoint on the final facts
        let mut vars = Vars::default();
        for k in [0usize, 1, 2] {
            if let Some(rust_rule_engine::types::Value::Integer(i)) = facts.get(&format!("v{}", k)) {
                vars.v.insert(k, i);
            }
        }
        let mut em2 = em.clone();
        let again = c02::ref_forward(&rules, &mut em2, &vars, "MAIN", chrono::Utc::now(), 1);
        if again.fired != 0 {
            return bad("stopped_before_fixpoint", format!("stopped after {} < {} cycles although {:?} is still eligible and true on the final facts", res.cycle_count, mc, again.seq));
        }
    }
    json!({"ok": true, "fired": seq.len(), "cycles": res.cycle_count})
}

pub fn child(spec: &str) {
    let cs = isolate::parse_spec(spec);
    isolate::child_loop(&cs, 16, |k| {
        let r = std::panic::catch_unwind(|| run_case(k));
        match r {
            Ok(v) => (v, false),
            Err(_) => (json!({"bad": "execute_panicked", "detail": crate::explore::take_panic()}), true),
        }
    });
}

fn run_families(opts: &Opts) -> Report {
    let t0 = Instant::now();
    let mut rep = Report::new("non_quiescing_families");
    let n = total_cases();
    let timeout = Duration::from_secs(if opts.tier == Tier::Quick { 10 } else { 120 });
    let res = isolate::run_batch("C03", "fam", n, timeout, 16, &[]);
    let mut done = BTreeSet::new();
    let mut nt = BTreeSet::new();
    for (k, o) in res {
        done.insert(k);
        rep.count("evaluations", 1);
        match o {
            Outcome::Done(v) => {
                if let Some(c) = v.get("bad").and_then(|c| c.as_str()) {
                    rep.violation(Violation { class: c.to_string(), detail: v["detail"].as_str().unwrap_or("").to_string(), tags: vec![], case: describe(k) });
                } else {
                    let (fam, mc, _, _) = decode(k);
                    if v["cycles"].as_u64() == Some(mc as u64) && mc > 0 {
                        rep.count("stopped_at_bound", 1);
                    } else {
                        rep.count("stopped_at_fixpoint", 1);
                    }
                    nt.insert(hstr(&format!("{}|{}", fam, mc)));
                    rep.outcomes.insert(hstr(&format!("{}|{}", v["fired"], v["cycles"])));
                }
            }
            Outcome::Hang => rep.violation(Violation { class: "execute_did_not_return".into(), detail: format!("no return within {:?}", timeout), tags: vec![], case: describe(k) }),
            Outcome::Abort(m) => rep.violation(Violation { class: "execute_aborted".into(), detail: m, tags: vec![], case: describe(k) }),
        }
    }
    if let Some(t) = isolate::truncated() {
        rep.cap_hit = Some(t);
    } else if done.len() != n {
        rep.notes.push(format!("MACHINERY: {} of {} cases produced no result", n - done.len(), n));
    }
    rep.count("nontrivial", nt.len() as u64);
    rep.sample(describe(families().len() * 7 + 2));
    rep.bound = format!("{} non-quiescing / quiescing families (counter with threshold 0..6, unbounded counter, flip-flop, 3-ring, two always-true rules; each with and without no-loop) x max_cycles 0..=64 x {{execute, execute_with_callback}} x {{Rule builder, GRL text}} = {} runs in watched child processes", families().len(), n);
    rep.wall_s = t0.elapsed().as_secs_f64();
    rep
}

/// A call that ends with an error from an action must not change what the next call on the same engine does.
const ENTRY_PAIRS: [&str; 4] = ["execute/execute", "callback/callback", "callback/execute", "execute/callback"];

/// entry points of the (first, second) call: 0 = execute/execute, 1 = callback/callback, 2 = callback/execute,
/// 3 = execute/callback
fn failed_call_cases() -> Vec<(String, Vec<RSpec>, usize, u8, bool)> {
    let mut out = vec![];
    let mk = |name: &str, cond: CondK, act: ActK, sal: i32, ag: Option<&'static str>| {
        let mut r = RSpec::plain(name);
        r.cond = cond;
        r.act = act;
        r.salience = sal;
        r.actgrp = ag;
        r
    };
    for (vname, ag, with_b) in [("plain", None, false), ("activation_group", Some("g"), false), ("activation_group_of_two", Some("g"), true), ("plain_with_second_rule", None, true)] {
        for fsal in [5, 15] {
            for mc in [1usize, 2, 3, 5, 8] {
                for cb in [0u8, 1, 2, 3] {
                    for grl in [false, true] {
                        let mut rules = vec![mk("A", CondK::VarLt(0, 3), ActK::IncVar(0), 10, ag)];
                        if with_b {
                            rules.push(mk("B", CondK::VarLt(2, 2), ActK::IncVar(2), 8, ag));
                        }
                        rules.push(mk("F", CondK::VarEq(1, 1), ActK::Fail, fsal, None));
                        out.push((format!("{}_failing_rule_salience_{}", vname, fsal), rules.clone(), mc, cb, grl));
                        if fsal == 5 && mc <= 2 {
                            out.push((format!("{}_first_call_ends_at_bound", vname), rules, mc, cb, grl));
                        }
                    }
                }
            }
        }
    }
    out
}

fn run_failed_call_case(name: &str, rules: &[RSpec], mc: usize, entries: u8, grl: bool) -> Result<bool, (String, String)> {
    let mut eng = c02::build_engine(rules, grl, mc).map_err(|e| ("rule_set_rejected".to_string(), e))?;
    let facts = c02::mk_facts();
    // variants whose name ends in "_bound": the first call does not fail, it ends at max_cycles after a pass that fired
    let arm = !name.ends_with("_bound");
    facts.set("v1", rust_rule_engine::types::Value::Integer(arm as i64));
    let (cb1, cb) = (entries == 1 || entries == 2, entries == 1 || entries == 3);
    let first = if cb1 { eng.execute_with_callback(&facts, |_n, _f| {}) } else { eng.execute(&facts) };
    let failed = first.is_err();
    // disarm the failing rule; everything else stays as the first call left it
    facts.set("v1", rust_rule_engine::types::Value::Integer(0));
    let seen = c02::read_seq(&facts).len();
    let mut vars = Vars::default();
    for k in [0usize, 1, 2] {
        if let Some(rust_rule_engine::types::Value::Integer(i)) = facts.get(&format!("v{}", k)) {
            vars.v.insert(k, i);
        }
    }
    let mut em = EModel::default();
    let exp = c02::ref_forward(rules, &mut em, &vars, "MAIN", chrono::Utc::now(), mc);
    let mut cbn = 0usize;
    let res = if cb { eng.execute_with_callback(&facts, |_n, _f| cbn += 1) } else { eng.execute(&facts) };
    let res = res.map_err(|e| ("execute_failed".to_string(), format!("second call: {:?}", e)))?;
    let seq: Vec<String> = c02::read_seq(&facts)[seen..].to_vec();
    let _ = name;
    if res.cycle_count > mc {
        return Err(("cycle_count_exceeds_max_cycles".into(), format!("cycle_count {} > max_cycles {}", res.cycle_count, mc)));
    }
    if res.rules_fired != seq.len() || (cb && cbn != seq.len()) {
        return Err(("fired_count_differs_from_firings".into(), format!("rules_fired {} / callback {} / firings {:?}", res.rules_fired, cbn, seq)));
    }
    if res.cycle_count != exp.cycles || seq != exp.seq {
        let class = if res.cycle_count < exp.cycles { "stopped_before_fixpoint" } else if seq != exp.seq { "firing_sequence_differs" } else { "cycle_count_differs" };
        return Err((class.into(), format!("call after a call that {}: {} passes firing {:?}; the pass loop on the same facts makes {} passes firing {:?}", if failed { "returned an error from an action" } else { "succeeded" }, res.cycle_count, seq, exp.cycles, exp.seq)));
    }
    Ok(failed)
}

fn run_failed_calls(_opts: &Opts) -> Report {
    let t0 = Instant::now();
    let mut rep = Report::new("call_after_failed_call");
    let cases = failed_call_cases();
    let mut nt = BTreeSet::new();
    let mut failed_first = 0u64;
    for (i, (name, rules, mc, cb, grl)) in cases.iter().enumerate() {
        rep.count("evaluations", 1);
        let case = json!({"sub": "call_after_failed_call", "case": i, "variant": name, "rules": rules.iter().map(|r| r.grl().unwrap()).collect::<Vec<_>>(), "max_cycles": mc, "entry_points_first_second": ENTRY_PAIRS[*cb as usize], "via_grl": grl});
        let r = std::panic::catch_unwind(|| run_failed_call_case(name, rules, *mc, *cb, *grl));
        match r {
            Err(_) => rep.violation(Violation { class: "execute_panicked".into(), detail: crate::explore::take_panic(), tags: vec![], case }),
            Ok(Err((c, d))) => rep.violation(Violation { class: c, detail: d, tags: vec!["previous_call_failed".into()], case }),
            Ok(Ok(f)) => {
                failed_first += f as u64;
                nt.insert(hstr(&format!("{}|{}", name, mc)));
            }
        }
    }
    rep.count("nontrivial", nt.len() as u64);
    rep.count("first_call_returned_error", failed_first);
    if failed_first == 0 {
        rep.notes.push("VACUITY: no first call failed".into());
    }
    rep.count("first_call_ended_at_the_bound", cases.iter().filter(|c| c.0.ends_with("_bound")).count() as u64);
    rep.sample(json!({"rules": cases[0].1.iter().map(|r| r.grl().unwrap()).collect::<Vec<_>>(), "first_call": "v1 = 1: rule F's action fails", "second_call": "v1 = 0"}));
    rep.bound = format!("{} cases: rule A (plain / in an activation group / with a second rule) and a rule whose action returns an error (before or after A in salience) x max_cycles 1,2,3,5,8 x all four (first, second) entry-point pairs x {{builder, GRL}}: the first call fails (or, for max_cycles <= 2, ends at the bound after a pass that fired), the second call on the same engine is compared with the pass loop", cases.len());
    rep.wall_s = t0.elapsed().as_secs_f64();
    rep
}

pub fn run(opts: &Opts) -> Vec<Report> {
    let mut out = vec![];
    if crate::props::wants(opts, "attribute_product_2_rules") {
        out.push(c02::run_product(opts, c02::Purpose::Fixpoint));
    }
    if crate::props::wants(opts, "non_quiescing_families") {
        out.push(run_families(opts));
    }
    if crate::props::wants(opts, "call_after_failed_call") {
        out.push(run_failed_calls(opts));
    }
    out
}

pub fn replay(case: &serde_json::Value) -> crate::props::ReplayResult {
    if case["sub"].as_str() == Some("non_quiescing_families") {
        let k = case["case"].as_u64().unwrap_or(0) as usize;
        let hist = vec![describe(k).to_string()];
        let res = isolate::run_batch_from("C03", "fam", k, k + 1, Duration::from_secs(20), 1, &[]);
        for (kk, o) in res {
            if kk == k {
                return match o {
                    Outcome::Done(v) => match v.get("bad").and_then(|c| c.as_str()) {
                        Some(c) => Err((hist, c.to_string(), v["detail"].as_str().unwrap_or("").to_string())),
                        None => Ok(hist),
                    },
                    Outcome::Hang => Err((hist, "execute_did_not_return".into(), "no return within 20 s".into())),
                    Outcome::Abort(m) => Err((hist, "execute_aborted".into(), m)),
                };
            }
        }
        return Ok(hist);
    }
    if case["sub"].as_str() == Some("call_after_failed_call") {
        let i = case["case"].as_u64().unwrap_or(0) as usize;
        let cases = failed_call_cases();
        let (name, rules, mc, cb, grl) = &cases[i.min(cases.len() - 1)];
        let hist = vec![case.to_string()];
        return match run_failed_call_case(name, rules, *mc, *cb, *grl) {
            Ok(_) => Ok(hist),
            Err((c, d)) => Err((hist, c, d)),
        };
    }
    c02::replay(case)
}
