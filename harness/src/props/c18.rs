//! C18 — module imports stay acyclic, visibility matches the declarations.
//! Real `ModuleManager` (Clone, fully observable through getters) explored breadth-first with exact
//! de-duplication; invariants I1–I4 evaluated in every state, results compared with a declaration model.
use crate::explore::{self, Config, Mismatch, System};
use crate::report::{hstr, Report};
use crate::{Opts, Tier};
use rust_rule_engine::engine::module::{ExportItem, ExportList, ImportType, ItemType, ModuleManager, ReExport};
use serde_json::json;
use std::collections::{BTreeMap, BTreeSet};

#[derive(Clone, Debug, PartialEq)]
pub enum Exp {
    All,
    None,
    SpecificR1,
    SpecificRStar,
}

#[derive(Clone, Debug, PartialEq)]
pub enum Op {
    Create(&'static str),
    Delete(&'static str),
    SetExports(&'static str, Exp),
    AddRule(&'static str, &'static str),
    Import(&'static str, &'static str, bool, &'static str), // to, from, rules-type?, pattern
    ImportReexport(&'static str, &'static str),
    /// import everything, re-export only the names matching the given pattern
    ImportReexportSel(&'static str, &'static str, &'static str),
}

#[derive(Clone)]
pub struct Sys {
    mm: ModuleManager,
    modules: Vec<&'static str>,
    rules: Vec<&'static str>,
    specific_r1: bool,
    selective_reexport: bool,
    /// import-graph mode: every module exists from the start and the alphabet is plain imports (and deletes / creates)
    graph_only: bool,
    pub undefined: u64,
}

fn pat(p: &str, name: &str) -> bool {
    if p == "*" {
        return true;
    }
    if let Some(pre) = p.strip_suffix('*') {
        name.starts_with(pre)
    } else {
        p == name
    }
}

impl Sys {
    pub fn new(modules: &[&'static str], rules: &[&'static str], specific_r1: bool) -> Self {
        Sys { mm: ModuleManager::new(), modules: modules.to_vec(), rules: rules.to_vec(), specific_r1, selective_reexport: false, graph_only: false, undefined: 0 }
    }
    /// every module of the alphabet is created up front; letters are imports between every ordered pair (incl. self)
    pub fn graph_only(modules: &[&'static str]) -> Self {
        let mut s = Sys::new(modules, &[], false);
        s.graph_only = true;
        for m in modules.iter().skip(1) {
            s.mm.create_module(*m).unwrap_or_else(|e| crate::explore::machinery(&format!("C18 create_module: {:?}", e)));
        }
        s
    }
    pub fn with_selective_reexport(mut self) -> Self {
        self.selective_reexport = true;
        self
    }
    /// Does module `m` export rule `r`? Some(true): it owns and exports it, or one of its import declarations really
    /// brings `r` (pattern matches, the source exports it) and that declaration's re-export patterns match `r`.
    /// Some(false): it does not own-export it and no re-export pattern of any of its declarations matches `r`.
    /// None (undefined): a re-export pattern matches `r` but the declaration carrying it does not bring `r` (the code
    /// re-exports by pattern alone; the statement does not say).
    fn exports3(&self, m: &str, r: &str, existing: &BTreeSet<String>, depth: usize) -> Option<bool> {
        if depth > self.modules.len() + 1 {
            return None;
        }
        if self.exports_owned(m, r) {
            return Some(true);
        }
        let md = self.mm.get_module(m).unwrap();
        let mut undef = false;
        for d in md.get_imports() {
            let Some(re) = &d.re_export else { continue };
            if !re.patterns.iter().any(|p| pat(p, r)) {
                continue;
            }
            let rules_kind = matches!(d.import_type, ImportType::AllRules | ImportType::Rules | ImportType::All);
            if rules_kind && existing.contains(&d.from_module) && pat(&d.pattern, r) {
                match self.exports3(&d.from_module, r, existing, depth + 1) {
                    Some(true) => return Some(true),
                    _ => undef = true,
                }
            } else {
                undef = true;
            }
        }
        if undef {
            None
        } else {
            Some(false)
        }
    }
    /// canonical dump of everything observable (this *is* the whole state: all fields have getters)
    fn dump(&self) -> String {
        let mut names = self.mm.list_modules();
        names.sort();
        let mut s = format!("focus={};", self.mm.get_focus());
        for n in &names {
            let m = self.mm.get_module(n).unwrap();
            let mut r: Vec<&String> = m.get_rules().iter().collect();
            r.sort();
            let mut t: Vec<&String> = m.get_templates().iter().collect();
            t.sort();
            s.push_str(&format!("{}:rules={:?};templates={:?};exports={:?};imports={:?};sal={};", n, r, t, m.get_exports(), m.get_imports(), m.get_salience()));
        }
        let g: BTreeMap<String, BTreeSet<String>> = self.mm.get_import_graph().iter().map(|(k, v)| (k.clone(), v.iter().cloned().collect())).collect();
        s.push_str(&format!("graph={:?}", g));
        s
    }
    fn exists(&self, m: &str) -> bool {
        self.mm.get_module(m).is_ok()
    }
    fn declared_edges(&self) -> BTreeSet<(String, String)> {
        let mut e = BTreeSet::new();
        for n in self.mm.list_modules() {
            for d in self.mm.get_module(&n).unwrap().get_imports() {
                e.insert((n.clone(), d.from_module.clone()));
            }
        }
        e
    }
    fn reaches(edges: &BTreeSet<(String, String)>, from: &str, to: &str) -> bool {
        let mut seen = BTreeSet::new();
        let mut stack = vec![from.to_string()];
        while let Some(x) = stack.pop() {
            if x == to {
                return true;
            }
            if !seen.insert(x.clone()) {
                continue;
            }
            for (a, b) in edges {
                if *a == x {
                    stack.push(b.clone());
                }
            }
        }
        false
    }
    fn exports_owned(&self, m: &str, r: &str) -> bool {
        let md = self.mm.get_module(m).unwrap();
        md.get_rules().contains(r)
            && match md.get_exports() {
                ExportList::All => true,
                ExportList::None => false,
                ExportList::Specific(items) => items.iter().any(|i| matches!(i.item_type, ItemType::Rule | ItemType::All) && pat(&i.pattern, r)),
            }
    }
    fn invariants(&mut self) -> Result<(), Mismatch> {
        let existing: BTreeSet<String> = self.mm.list_modules().into_iter().collect();
        let decl = self.declared_edges();
        let live: BTreeSet<(String, String)> = decl.iter().filter(|(a, b)| existing.contains(a) && existing.contains(b)).cloned().collect();
        let dangling: Vec<&(String, String)> = decl.iter().filter(|(_, b)| !existing.contains(b)).collect();
        let dangling_tags: Vec<&str> = if dangling.is_empty() { vec![] } else { vec!["import_decl_of_deleted_module"] };
        // I1 acyclic
        for (a, b) in &live {
            if a == b || Sys::reaches(&live, b, a) {
                return Err(Mismatch::tagged("import_cycle", format!("declared imports among existing modules contain a cycle through {} -> {}: {:?}", a, b, live), &dangling_tags));
            }
        }
        // I2 the two records of the relation agree (restricted to existing modules)
        let graph: BTreeSet<(String, String)> = self.mm.get_import_graph().iter().flat_map(|(k, v)| v.iter().map(move |x| (k.clone(), x.clone()))).filter(|(a, b)| existing.contains(a) && existing.contains(b)).collect();
        if graph != live {
            return Err(Mismatch::tagged("graph_differs_from_declarations", format!("import graph {:?} vs declared imports {:?}", graph, live), &dangling_tags));
        }
        // I4 visibility
        for m in &existing {
            let md = self.mm.get_module(m).unwrap();
            let mut model_visible = BTreeSet::new();
            let mut undefined = BTreeSet::new();
            for r in self.rules.clone() {
                let mut vis = md.get_rules().contains(r);
                let mut undef = false;
                for d in md.get_imports() {
                    if !matches!(d.import_type, ImportType::AllRules | ImportType::Rules | ImportType::All) || !existing.contains(&d.from_module) {
                        continue;
                    }
                    if !pat(&d.pattern, r) {
                        continue;
                    }
                    match self.exports3(&d.from_module, r, &existing, 0) {
                        Some(true) => vis = true,
                        Some(false) => {}
                        // a re-export pattern of the source matches a name its declaration does not bring
                        None => undef = true,
                    }
                }
                if vis {
                    model_visible.insert(r.to_string());
                } else if undef {
                    undefined.insert(r.to_string());
                }
                let got = self.mm.is_rule_visible(r, m);
                match got {
                    Err(e) => return Err(Mismatch::tagged("visibility_query_failed", format!("is_rule_visible({}, {}) = Err({:?}) on an existing module", r, m, e), &dangling_tags)),
                    Ok(g) => {
                        if undefined.contains(r) {
                            self.undefined += 1;
                        } else if g != vis {
                            return Err(Mismatch::tagged("visibility_differs", format!("is_rule_visible({}, {}) = {}, declarations say {} (state: {})", r, m, g, vis, self.dump()), &dangling_tags));
                        }
                    }
                }
            }
            match self.mm.get_visible_rules(m) {
                Err(e) => return Err(Mismatch::tagged("visibility_query_failed", format!("get_visible_rules({}) = Err({:?}) on an existing module", m, e), &dangling_tags)),
                Ok(v) => {
                    let got: BTreeSet<String> = v.iter().cloned().collect();
                    if got.len() != v.len() {
                        return Err(Mismatch::new("visibility_differs", format!("get_visible_rules({}) lists a rule twice: {:?}", m, v)));
                    }
                    let lo = &model_visible;
                    let hi: BTreeSet<String> = model_visible.union(&undefined).cloned().collect();
                    if !lo.is_subset(&got) || !got.is_subset(&hi) {
                        return Err(Mismatch::tagged("visibility_differs", format!("get_visible_rules({}) = {:?}, declarations say {:?} (+ undefined {:?})", m, got, lo, undefined), &dangling_tags));
                    }
                }
            }
            match self.mm.is_template_visible("t1", m) {
                Err(e) => return Err(Mismatch::tagged("visibility_query_failed", format!("is_template_visible(t1, {}) = Err({:?}) on an existing module", m, e), &dangling_tags)),
                Ok(true) => {
                    // only a re-exporting source can make an undefined name visible (undefined domain)
                    let via_reexport = md.get_imports().iter().any(|d| {
                        existing.contains(&d.from_module) && self.mm.get_module(&d.from_module).unwrap().get_imports().iter().any(|i| i.re_export.is_some())
                    });
                    if via_reexport {
                        self.undefined += 1;
                    } else {
                        return Err(Mismatch::new("visibility_differs", format!("template t1 (never defined) is visible to {}", m)));
                    }
                }
                Ok(false) => {}
            }
        }
        Ok(())
    }
}

impl System for Sys {
    type Op = Op;
    fn enabled(&self) -> Vec<Op> {
        let mut v = vec![];
        let ms = &self.modules;
        if self.graph_only {
            for to in ms {
                for from in ms {
                    v.push(Op::Import(to, from, true, "*"));
                }
            }
            return v;
        }
        for m in ms.iter().skip(1) {
            v.push(Op::Create(m));
        }
        for m in ms {
            v.push(Op::Delete(m));
        }
        for m in ms {
            for r in &self.rules {
                v.push(Op::AddRule(m, r));
            }
        }
        for m in ms {
            v.push(Op::SetExports(m, Exp::All));
            v.push(Op::SetExports(m, Exp::None));
            v.push(Op::SetExports(m, Exp::SpecificRStar));
            if self.specific_r1 {
                v.push(Op::SetExports(m, Exp::SpecificR1));
            }
        }
        for to in ms {
            for from in ms {
                v.push(Op::Import(to, from, true, "*"));
                v.push(Op::Import(to, from, true, "r*"));
                if self.specific_r1 {
                    v.push(Op::Import(to, from, true, "r1"));
                }
                v.push(Op::Import(to, from, false, "*"));
                v.push(Op::ImportReexport(to, from));
                if self.selective_reexport {
                    v.push(Op::ImportReexportSel(to, from, self.rules[0]));
                }
            }
        }
        v
    }
    fn step(&mut self, op: &Op) -> Result<u64, Mismatch> {
        let before = self.dump();
        let existing: BTreeSet<String> = self.mm.list_modules().into_iter().collect();
        let decl_live: BTreeSet<(String, String)> = self.declared_edges().into_iter().filter(|(a, b)| existing.contains(a) && existing.contains(b)).collect();
        let res: Result<(), String> = match op {
            Op::Create(m) => self.mm.create_module(*m).map(|_| ()).map_err(|e| format!("{:?}", e)),
            Op::Delete(m) => self.mm.delete_module(m).map_err(|e| format!("{:?}", e)),
            Op::SetExports(m, e) => {
                let list = match e {
                    Exp::All => ExportList::All,
                    Exp::None => ExportList::None,
                    Exp::SpecificR1 => ExportList::Specific(vec![ExportItem { item_type: ItemType::Rule, pattern: "r1".to_string() }]),
                    Exp::SpecificRStar => ExportList::Specific(vec![ExportItem { item_type: ItemType::Rule, pattern: "r*".to_string() }]),
                };
                self.mm.export_all_from(m, list).map_err(|e| format!("{:?}", e))
            }
            Op::AddRule(m, r) => match self.mm.get_module_mut(m) {
                Ok(md) => {
                    md.add_rule(*r);
                    Ok(())
                }
                Err(e) => Err(format!("{:?}", e)),
            },
            Op::Import(to, from, rules, p) => self.mm.import_from(to, from, if *rules { ImportType::AllRules } else { ImportType::AllTemplates }, *p).map_err(|e| format!("{:?}", e)),
            Op::ImportReexport(to, from) => self.mm.import_from_with_reexport(to, from, ImportType::AllRules, "*", Some(ReExport { patterns: vec!["*".to_string()], transitive: true })).map_err(|e| format!("{:?}", e)),
            Op::ImportReexportSel(to, from, p) => self.mm.import_from_with_reexport(to, from, ImportType::AllRules, "*", Some(ReExport { patterns: vec![p.to_string()], transitive: true })).map_err(|e| format!("{:?}", e)),
        };
        let after = self.dump();
        // I3: a refused operation changes nothing
        if res.is_err() && after != before {
            return Err(Mismatch::new("refused_operation_changed_state", format!("{:?} returned {:?} but the state changed:\n  before {}\n  after  {}", op, res, before, after)));
        }
        // expected verdicts
        let expect_ok = match op {
            Op::Create(m) => !existing.contains(*m),
            Op::Delete(m) => *m != "MAIN" && existing.contains(*m),
            Op::SetExports(m, _) | Op::AddRule(m, _) => existing.contains(*m),
            Op::Import(to, from, _, _) | Op::ImportReexport(to, from) | Op::ImportReexportSel(to, from, _) => existing.contains(*to) && existing.contains(*from) && to != from && !Sys::reaches(&decl_live, from, to),
        };
        if let (Op::Import(to, from, _, _) | Op::ImportReexport(to, from) | Op::ImportReexportSel(to, from, _), Ok(())) = (op, &res) {
            if existing.contains(*to) && existing.contains(*from) && (to == from || Sys::reaches(&decl_live, from, to)) {
                let tags: Vec<&str> = vec![];
                return Err(Mismatch::tagged("cycle_closing_import_accepted", format!("{:?} accepted although {} already reaches {} through declared imports {:?}", op, from, to, decl_live), &tags));
            }
        }
        if res.is_ok() != expect_ok {
            let class = if res.is_ok() { "invalid_operation_accepted" } else { "legitimate_operation_refused" };
            return Err(Mismatch::new(class, format!("{:?} -> {:?}, expected {}", op, res, if expect_ok { "Ok" } else { "Err" })));
        }
        self.invariants()?;
        Ok(hstr(&after))
    }
    fn kind(op: &Op) -> String {
        match op {
            Op::Create(_) => "create",
            Op::Delete(_) => "delete",
            Op::SetExports(..) => "set_exports",
            Op::AddRule(..) => "add_rule",
            Op::Import(..) => "import",
            Op::ImportReexport(..) | Op::ImportReexportSel(..) => "import_reexport",
        }
        .to_string()
    }
    fn model_state(&self) -> u64 {
        hstr(&self.dump())
    }
    fn fingerprint(&self) -> Option<u64> {
        Some(hstr(&self.dump()))
    }
    fn try_clone(&self) -> Option<Self> {
        Some(self.clone())
    }
}

type Plan = (&'static str, Vec<&'static str>, Vec<&'static str>, bool, usize);

pub fn run(opts: &Opts) -> Vec<Report> {
    let plan: Vec<Plan> = match opts.tier {
        Tier::Quick => vec![("modules_3m_2r_len6", vec!["MAIN", "A", "B"], vec!["r1", "q"], false, 6), ("modules_selective_reexport_3m_2r_len6", vec!["MAIN", "A", "B"], vec!["r1", "q"], false, 6), ("modules_4m_3r_len5", vec!["MAIN", "A", "B", "C"], vec!["r1", "r2", "q"], true, 5)],
        Tier::Thorough => vec![("modules_3m_2r_len7", vec!["MAIN", "A", "B"], vec!["r1", "q"], false, 7), ("modules_selective_reexport_3m_2r_len7", vec!["MAIN", "A", "B"], vec!["r1", "q"], false, 7), ("modules_4m_3r_len5", vec!["MAIN", "A", "B", "C"], vec!["r1", "r2", "q"], true, 5)],
    };
    let mut out = vec![];
    // import graphs: all modules exist, every sequence of imports (the cycle search has to look past leaf modules and
    // through modules with several imports; which sibling it visits first depends on a hash order, so the closure is
    // run from several fresh managers)
    let (gname, gmods, gdepth, roots): (&str, Vec<&'static str>, usize, usize) = if opts.tier == Tier::Quick { ("import_graphs_4m_len6", vec!["MAIN", "A", "B", "C"], 6, 6) } else { ("import_graphs_5m_len6", vec!["MAIN", "A", "B", "C", "D"], 6, 8) };
    if crate::props::wants(opts, gname) {
        let mut total = Report::new(gname);
        for root in 0..roots {
            let mut cfg = Config::new(gname, gdepth);
            cfg.ctx = json!({"modules": gmods, "graph_only": true, "root": root});
            cfg.expected_letters = ["import"].iter().map(|s| s.to_string()).collect();
            let m2 = gmods.clone();
            total.merge(explore::closure(&move || Sys::graph_only(&m2), &cfg));
        }
        total.bound = format!("modules {:?} all created; breadth-first, exact de-duplication, every import graph reachable by <= {} imports x every import (every ordered pair incl. self); repeated from {} fresh managers (hash order of the import sets differs)", gmods, gdepth, roots);
        out.push(total);
    }
    for (name, mods, rules, sr1, depth) in plan {
        if !crate::props::wants(opts, name) {
            continue;
        }
        let mut cfg = Config::new(name, depth);
        let sel = name.contains("selective_reexport");
        cfg.ctx = json!({"modules": mods, "rules": rules, "specific_r1": sr1, "selective_reexport": sel});
        cfg.expected_letters = ["create", "delete", "set_exports", "add_rule", "import", "import_reexport"].iter().map(|s| s.to_string()).collect();
        let (m2, r2) = (mods.clone(), rules.clone());
        let mut r = explore::closure(&move || if sel { Sys::new(&m2, &r2, sr1).with_selective_reexport() } else { Sys::new(&m2, &r2, sr1) }, &cfg);
        r.bound = format!("breadth-first, exact de-duplication, every state reachable in <= {} operations x every letter; modules {:?}, rules {:?}{}", depth, mods, rules, if sel { "; re-exporting imports with pattern * and with a selective pattern" } else { "" });
        r.assumptions.push("a module exports a name it re-exports when the re-exporting declaration really brings the name (pattern matches, source exports it); a re-export pattern matching a name the declaration does not bring is left undefined (the code re-exports by pattern alone; the statement does not say)".into());
        out.push(r);
    }
    out
}

pub fn replay(case: &serde_json::Value) -> crate::props::ReplayResult {
    let sv = |k: &str| -> Vec<&'static str> {
        case["ctx"][k]
            .as_array()
            .map(|a| a.iter().filter_map(|x| x.as_str()).map(|s| -> &'static str { Box::leak(s.to_string().into_boxed_str()) }).collect())
            .unwrap_or_default()
    };
    let (mods, rules) = (sv("modules"), sv("rules"));
    let sr1 = case["ctx"]["specific_r1"].as_bool().unwrap_or(false);
    let ch = crate::props::choices_of(case);
    let sel = case["ctx"]["selective_reexport"].as_bool().unwrap_or(false);
    if case["ctx"]["graph_only"].as_bool() == Some(true) {
        return crate::props::conv(explore::replay(&move || Sys::graph_only(&mods), &ch));
    }
    crate::props::conv(explore::replay(&move || if sel { Sys::new(&mods, &rules, sr1).with_selective_reexport() } else { Sys::new(&mods, &rules, sr1) }, &ch))
}
