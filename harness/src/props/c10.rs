//! C10 (a) — undo frames of the fact store are transactional.
//! Every history of begin / commit / rollback / set / set_nested / remove over 3 keys, compared
//! after every operation with a stack-of-snapshots model.
use crate::explore::{self, Config, Mismatch, System};
use crate::report::{hstr, Report, Violation};
use crate::{Opts, Tier};
use rust_rule_engine::engine::facts::Facts;
use rust_rule_engine::types::Value;
use serde_json::json;
use std::collections::{BTreeMap, HashMap};

#[derive(Clone, Debug, PartialEq)]
pub enum Op {
    Begin,
    Commit,
    Rollback,
    Set(&'static str, i64),
    SetObj,
    SetNested(i64),
    /// set_nested with a one-segment path: writes the top-level key
    SetNestedTop(&'static str, i64),
    /// the key holds a top-level null (present, not absent)
    SetNull(&'static str),
    /// the key `d` becomes an object that contains an object: {inner: {g: 1}}
    SetDeepObj,
    /// set_nested with a three-segment path: d.inner.g
    SetNestedDeep(i64),
    Remove(&'static str),
}

pub struct Sys {
    f: Facts,
    model: BTreeMap<String, Value>,
    stack: Vec<BTreeMap<String, Value>>,
    alphabet: Vec<Op>,
    pub tags: Vec<&'static str>,
    inner_commit_pending: Vec<bool>, // per open frame: an inner frame was committed inside it after writes
}

fn obj(v: i64) -> Value {
    let mut m = HashMap::new();
    m.insert("f".to_string(), Value::Integer(v));
    Value::Object(m)
}

fn deep_obj(g: i64) -> Value {
    let mut inner = std::collections::HashMap::new();
    inner.insert("g".to_string(), Value::Integer(g));
    let mut outer = std::collections::HashMap::new();
    outer.insert("inner".to_string(), Value::Object(inner));
    Value::Object(outer)
}

pub fn alphabet(level: usize) -> Vec<Op> {
    use Op::*;
    match level {
        0 => vec![Begin, Commit, Rollback, Set("k1", 1), Set("k1", 2), Remove("k1")],
        1 => vec![Begin, Commit, Rollback, Set("k1", 1), Set("k1", 2), Set("k2", 1), SetObj, SetNested(2), Remove("k1"), Remove("o")],
        3 => vec![Begin, Commit, Rollback, Set("k1", 1), SetNestedTop("k1", 2), SetNestedTop("k2", 1), Remove("k1"), SetNull("k1")],
        4 => vec![Begin, Commit, Rollback, SetDeepObj, SetNestedDeep(2), SetNestedDeep(3), Remove("d"), Set("d", 1)],
        _ => vec![Begin, Commit, Rollback, Set("k1", 1), Set("k1", 2), Set("k2", 1), SetObj, SetNested(1), SetNested(2), SetNestedTop("k1", 3), Remove("k1"), Remove("k2"), Remove("o")],
    }
}

impl Sys {
    pub fn new(level: usize) -> Self {
        Sys { f: Facts::new(), model: BTreeMap::new(), stack: vec![], alphabet: alphabet(level), tags: vec![], inner_commit_pending: vec![] }
    }
}

impl System for Sys {
    type Op = Op;
    fn enabled(&self) -> Vec<Op> {
        self.alphabet.clone()
    }
    fn step(&mut self, op: &Op) -> Result<u64, Mismatch> {
        let mut tags: Vec<&str> = vec![];
        match op {
            Op::Begin => {
                self.f.begin_undo_frame();
                self.stack.push(self.model.clone());
                self.inner_commit_pending.push(false);
            }
            Op::Commit => {
                self.f.commit_undo_frame();
                if self.stack.pop().is_some() {
                    self.inner_commit_pending.pop();
                    if let Some(p) = self.inner_commit_pending.last_mut() {
                        *p = true;
                    }
                }
            }
            Op::Rollback => {
                self.f.rollback_undo_frame();
                if let Some(s) = self.stack.pop() {
                    self.model = s;
                    if self.inner_commit_pending.pop() == Some(true) {
                        tags.push("rollback_after_inner_commit");
                    }
                }
            }
            Op::Set(k, v) => {
                self.f.set(k, Value::Integer(*v));
                self.model.insert(k.to_string(), Value::Integer(*v));
            }
            Op::SetObj => {
                self.f.set("o", obj(1));
                self.model.insert("o".to_string(), obj(1));
            }
            Op::SetNested(v) => {
                let r = self.f.set_nested("o.f", Value::Integer(*v));
                match self.model.get_mut("o") {
                    Some(Value::Object(m)) => {
                        if r.is_err() {
                            return Err(Mismatch::new("set_nested_failed", format!("set_nested(o.f) failed on an existing object: {:?}", r)));
                        }
                        m.insert("f".to_string(), Value::Integer(*v));
                    }
                    _ => {
                        if r.is_ok() {
                            return Err(Mismatch::new("set_nested_succeeded_without_object", "set_nested(o.f) succeeded although `o` is absent".to_string()));
                        }
                    }
                }
            }
            Op::SetNestedTop(k, v) => {
                if let Err(e) = self.f.set_nested(k, Value::Integer(*v)) {
                    return Err(Mismatch::new("set_nested_failed", format!("set_nested({}) with a one-segment path failed: {:?}", k, e)));
                }
                self.model.insert(k.to_string(), Value::Integer(*v));
            }
            Op::SetNull(k) => {
                self.f.set(k, Value::Null);
                self.model.insert(k.to_string(), Value::Null);
            }
            Op::SetDeepObj => {
                let v = deep_obj(1);
                self.f.set("d", v.clone());
                self.model.insert("d".to_string(), v);
            }
            Op::SetNestedDeep(v) => {
                let r = self.f.set_nested("d.inner.g", Value::Integer(*v));
                let is_deep = matches!(self.model.get("d"), Some(Value::Object(m)) if matches!(m.get("inner"), Some(Value::Object(_))));
                if is_deep {
                    if r.is_err() {
                        return Err(Mismatch::new("set_nested_failed", format!("set_nested(d.inner.g) failed on an existing nested object: {:?}", r)));
                    }
                    self.model.insert("d".to_string(), deep_obj(*v));
                } else if r.is_ok() {
                    return Err(Mismatch::new("set_nested_succeeded_without_object", "set_nested(d.inner.g) succeeded although d.inner is not an object".to_string()));
                }
            }
            Op::Remove(k) => {
                let got = self.f.remove(k);
                let exp = self.model.remove(*k);
                if got != exp {
                    return Err(Mismatch::new("remove_result", format!("remove({}) returned {:?}, expected {:?}", k, got, exp)));
                }
            }
        }
        let got: BTreeMap<String, Value> = self.f.get_all_facts().into_iter().collect();
        if got != self.model {
            let class = if matches!(op, Op::Rollback) { "rollback_did_not_restore" } else { "facts_differ_from_model" };
            return Err(Mismatch::tagged(class, format!("after {:?}: facts {:?}, expected {:?}", op, got, self.model), &tags));
        }
        for k in ["k1", "k2", "o", "d"] {
            if self.f.get(k) != self.model.get(k).cloned() || self.f.contains(k) != self.model.contains_key(k) {
                return Err(Mismatch::new("facts_differ_from_model", format!("get/contains({}) disagree with get_all_facts", k)));
            }
        }
        Ok(hstr(&format!("{:?}", got)))
    }
    fn kind(op: &Op) -> String {
        match op {
            Op::Begin => "begin",
            Op::Commit => "commit",
            Op::Rollback => "rollback",
            Op::Set(..) | Op::SetNull(_) => "set",
            Op::SetObj => "set_object",
            Op::SetNested(_) | Op::SetNestedTop(..) | Op::SetNestedDeep(_) => "set_nested",
            Op::SetDeepObj => "set_object",
            Op::Remove(_) => "remove",
        }
        .to_string()
    }
    fn model_state(&self) -> u64 {
        hstr(&format!("{:?}|{:?}", self.model, self.stack))
    }
}

pub fn run_frames(opts: &Opts) -> Vec<Report> {
    let plan: Vec<(&str, usize, usize)> = match opts.tier {
        Tier::Quick => vec![("undo_full_len6", 2, 6), ("undo_mid_len7", 1, 7), ("undo_small_len9", 0, 9), ("undo_top_level_set_nested_len7", 3, 7), ("undo_three_segment_set_nested_len7", 4, 7)],
        Tier::Thorough => vec![("undo_full_len7", 2, 7), ("undo_mid_len8", 1, 8), ("undo_small_len10", 0, 10), ("undo_top_level_set_nested_len10", 3, 10), ("undo_three_segment_set_nested_len9", 4, 9)],
    };
    let mut out = vec![];
    for (name, level, depth) in plan {
        if !crate::props::wants(opts, name) {
            continue;
        }
        let mut cfg = Config::new(name, depth);
        cfg.ctx = json!({"alphabet_level": level});
        cfg.expected_letters = ["begin", "commit", "rollback", "set", "remove"].iter().map(|s| s.to_string()).collect();
        let mut r = explore::explore(&move || Sys::new(level), &cfg);
        r.bound = format!("all histories of length <= {} over {:?}", depth, alphabet(level));
        out.push(r);
    }
    out
}

pub fn replay_frames(case: &serde_json::Value) -> crate::props::ReplayResult {
    let level = case["ctx"]["alphabet_level"].as_u64().unwrap_or(2) as usize;
    let ch = crate::props::choices_of(case);
    crate::props::conv(explore::replay(&move || Sys::new(level), &ch))
}


/// (c) rules whose execution raises an error part-way through their actions (a method call that cannot be carried out
/// after an earlier assignment). This goes beyond the Horn-style rule sets of the property's quantifier; the statement
/// itself ("reported not provable => the caller's facts are as before") is checked unchanged.
#[derive(Clone, Debug)]
struct ErrCase {
    cond_kind: usize,
    seq: Vec<usize>,
    alt: usize,
    init: u32,
    goal: String,
    strategy: usize,
    max_solutions: usize,
    max_depth: usize,
}

impl ErrCase {
    fn json(&self) -> serde_json::Value {
        json!({"sub": "erroring_actions", "condition_kind": self.cond_kind, "actions": self.seq, "second_candidate": self.alt, "init": self.init, "goal": self.goal,
            "strategy": self.strategy, "max_solutions": self.max_solutions, "max_depth": self.max_depth,
            "rendered": format!("Mid: A.base -> A.mid = true; Finish: {} -> {:?} (0 A.tmp = 1, 1 Car.setSpeed(\"fast\"), 2 Car.setSpeed(50), 3 A.goal = true); second candidate for A.goal: {}; initial facts bits (Car, other, mid, base) = {:04b}; query `{}` with {} max_solutions {} max_depth {}",
                ["A.mid", "A.base", "A.base && A.mid"][self.cond_kind], self.seq, ["none", "after Finish", "before Finish"][self.alt], self.init, self.goal, ["DFS", "BFS", "Iterative"][self.strategy], self.max_solutions, self.max_depth)})
    }
    fn from_json(c: &serde_json::Value) -> ErrCase {
        ErrCase {
            cond_kind: c["condition_kind"].as_u64().unwrap_or(0) as usize,
            seq: c["actions"].as_array().map(|a| a.iter().map(|x| x.as_u64().unwrap_or(0) as usize).collect()).unwrap_or_default(),
            alt: c["second_candidate"].as_u64().unwrap_or(0) as usize,
            init: c["init"].as_u64().unwrap_or(0) as u32,
            goal: c["goal"].as_str().unwrap_or("A.goal == true").to_string(),
            strategy: c["strategy"].as_u64().unwrap_or(0) as usize,
            max_solutions: c["max_solutions"].as_u64().unwrap_or(1) as usize,
            max_depth: c["max_depth"].as_u64().unwrap_or(10) as usize,
        }
    }
    fn kb(&self) -> rust_rule_engine::KnowledgeBase {
        use rust_rule_engine::types::{ActionType, Operator};
        use rust_rule_engine::{Condition, ConditionGroup, KnowledgeBase, Rule};
        let cond = |f: &str| ConditionGroup::single(Condition::new(f.to_string(), Operator::Equal, Value::Boolean(true)));
        let and = |a: ConditionGroup, b: ConditionGroup| ConditionGroup::Compound { left: Box::new(a), operator: rust_rule_engine::types::LogicalOperator::And, right: Box::new(b) };
        // action letters: 0 A.tmp = 1, 1 Car.setSpeed("fast") (always an error), 2 Car.setSpeed(50) (an error without a Car), 3 A.goal = true
        let action = |k: usize| match k {
            0 => ActionType::Set { field: "A.tmp".into(), value: Value::Integer(1) },
            1 => ActionType::MethodCall { object: "Car".into(), method: "setSpeed".into(), args: vec![Value::String("fast".into())] },
            2 => ActionType::MethodCall { object: "Car".into(), method: "setSpeed".into(), args: vec![Value::Number(50.0)] },
            _ => ActionType::Set { field: "A.goal".into(), value: Value::Boolean(true) },
        };
        let kb = KnowledgeBase::new("c10c");
        let mid = Rule::new("Mid".into(), cond("A.base"), vec![ActionType::Set { field: "A.mid".into(), value: Value::Boolean(true) }]);
        let fin = Rule::new(
            "Finish".into(),
            match self.cond_kind {
                0 => cond("A.mid"),
                1 => cond("A.base"),
                _ => and(cond("A.base"), cond("A.mid")),
            },
            self.seq.iter().map(|k| action(*k)).collect(),
        );
        let other = Rule::new("Alt".into(), cond("A.other"), vec![ActionType::Set { field: "A.goal".into(), value: Value::Boolean(true) }]);
        let mut rules = vec![mid, fin];
        match self.alt {
            1 => rules.push(other),
            2 => rules.insert(0, other),
            _ => {}
        }
        for r in rules {
            kb.add_rule(r).unwrap_or_else(|e| crate::explore::machinery(&format!("C10 add_rule: {:?}", e)));
        }
        kb
    }
    /// Ok(outcome label) or Err((class, detail))
    fn run(&self, kb: &rust_rule_engine::KnowledgeBase) -> Result<&'static str, (String, String)> {
        use rust_rule_engine::backward::{BackwardConfig, BackwardEngine, SearchStrategy};
        let mut facts = Facts::new();
        if self.init & 1 != 0 {
            facts.set("A.base", Value::Boolean(true));
        }
        if self.init & 2 != 0 {
            facts.set("A.mid", Value::Boolean(true));
        }
        if self.init & 4 != 0 {
            facts.set("A.other", Value::Boolean(true));
        }
        if self.init & 8 != 0 {
            let mut car = HashMap::new();
            car.insert("Speed".to_string(), Value::Number(30.0));
            facts.set("Car", Value::Object(car));
        }
        let before: BTreeMap<String, String> = facts.get_all_facts().into_iter().map(|(k, v)| (k, format!("{:?}", v))).collect();
        let kbc = kb.clone();
        let strategy = match self.strategy {
            0 => SearchStrategy::DepthFirst,
            1 => SearchStrategy::BreadthFirst,
            _ => SearchStrategy::Iterative,
        };
        let (max_depth, max_solutions) = (self.max_depth, self.max_solutions);
        let goal = self.goal.clone();
        let r = std::panic::catch_unwind(std::panic::AssertUnwindSafe(|| {
            let mut e = BackwardEngine::with_config(kbc, BackwardConfig { max_depth, strategy, enable_memoization: false, max_solutions });
            e.query(&goal, &mut facts)
        }));
        match r {
            Err(_) => {
                let _ = crate::explore::take_panic();
                Ok("panics_caught")
            }
            Ok(Err(_)) => Ok("query_errors"),
            Ok(Ok(res)) => {
                if res.provable {
                    return Ok("provable");
                }
                let after: BTreeMap<String, String> = facts.get_all_facts().into_iter().map(|(k, v)| (k, format!("{:?}", v))).collect();
                if after != before {
                    return Err(("failed_proof_changed_facts".into(), format!("not provable, but the facts changed: before {:?}, after {:?}", before, after)));
                }
                // no speculative frame of the search is still open on the facts handed back
                facts.set("A.late", Value::Integer(1));
                facts.rollback_undo_frame();
                if facts.get("A.late") != Some(Value::Integer(1)) {
                    return Err(("failed_proof_left_an_undo_frame_open".into(), "after a not-provable query, a write by the caller followed by rollback_undo_frame() (no frame opened by the caller) was undone".into()));
                }
                Ok("not_provable")
            }
        }
    }
}

pub fn run_failing_actions(opts: &Opts) -> Vec<Report> {
    let name = "failed_proofs_with_erroring_actions";
    if !crate::props::wants(opts, name) {
        return vec![];
    }
    let t0 = std::time::Instant::now();
    let mut rep = Report::new(name);
    let max_len = if opts.tier == Tier::Quick { 3 } else { 4 };
    let mut seqs: Vec<Vec<usize>> = vec![];
    for len in 1..=max_len {
        let mut idx = vec![0usize; len];
        loop {
            seqs.push(idx.clone());
            let mut i = 0;
            while i < len {
                idx[i] += 1;
                if idx[i] < 4 {
                    break;
                }
                idx[i] = 0;
                i += 1;
            }
            if i == len {
                break;
            }
        }
    }
    for cond_kind in 0..3usize {
        for seq in &seqs {
            for alt in 0..3usize {
                // alt: 0 no second candidate, 1 a second candidate for the goal after Finish, 2 before it
                let mut c = ErrCase { cond_kind, seq: seq.clone(), alt, init: 0, goal: String::new(), strategy: 0, max_solutions: 1, max_depth: 10 };
                let kb = c.kb();
                rep.count("programs", 1);
                for init in 0..16u32 {
                    for goal in ["A.goal == true", "A.tmp == 1"] {
                        for strategy in 0..3usize {
                            for max_solutions in [1usize, 3] {
                                for max_depth in [2usize, 10] {
                                    c.init = init;
                                    c.goal = goal.to_string();
                                    c.strategy = strategy;
                                    c.max_solutions = max_solutions;
                                    c.max_depth = max_depth;
                                    rep.count("evaluations", 1);
                                    match c.run(&kb) {
                                        Ok(label) => {
                                            rep.count(label, 1);
                                            if label == "not_provable" && seq.iter().any(|k| *k == 1 || (*k == 2 && init & 8 == 0)) {
                                                rep.count("not_provable_with_an_erroring_action_in_the_rule", 1);
                                            }
                                        }
                                        Err((class, detail)) => rep.violation(Violation { class, detail, tags: vec![format!("strategy_{}", ["dfs", "bfs", "iterative"][strategy])], case: c.json() }),
                                    }
                                }
                            }
                        }
                    }
                }
            }
        }
    }
    rep.sample(ErrCase { cond_kind: 0, seq: vec![0, 1, 3], alt: 0, init: 1, goal: "A.goal == true".into(), strategy: 0, max_solutions: 1, max_depth: 10 }.json());
    rep.bound = format!("rules Mid (A.base -> A.mid) and Finish (3 conditions x every action list of length <= {} over A.tmp = 1 / Car.setSpeed(\"fast\") / Car.setSpeed(50) / A.goal = true), with no / a later / an earlier second candidate for the goal, built through the Rule API x 16 initial fact stores (Car present or not) x 2 goals x DFS/BFS/iterative x max_solutions 1, 3 x max_depth 2, 10", max_len);
    rep.notes.push("beyond the property's quantifier (Horn-style assignments only): rules whose execution raises an error after an earlier assignment".into());
    rep.wall_s = t0.elapsed().as_secs_f64();
    vec![rep]
}

pub fn replay_failing_actions(case: &serde_json::Value) -> crate::props::ReplayResult {
    let c = ErrCase::from_json(case);
    let kb = c.kb();
    let hist = vec![case["rendered"].as_str().unwrap_or("").to_string()];
    for _ in 0..25 {
        if let Err((class, detail)) = c.run(&kb) {
            return Err((hist, class, detail));
        }
    }
    Ok(hist)
}

pub fn run(opts: &Opts) -> Vec<Report> {
    let mut out = run_frames(opts);
    out.extend(run_failing_actions(opts));
    // (b) failed proofs leave the facts untouched: the C09 enumeration with the before/after oracle
    out.extend(crate::props::c09::run_mode(opts, crate::props::c09::Mode::FailedProofs));
    out
}

pub fn replay(case: &serde_json::Value) -> crate::props::ReplayResult {
    if case["sub"].as_str() == Some("horn") {
        return crate::props::c09::replay_mode(case, crate::props::c09::Mode::FailedProofs);
    }
    if case["sub"].as_str() == Some("erroring_actions") {
        return replay_failing_actions(case);
    }
    replay_frames(case)
}
