//! C10 (a) — undo frames of the fact store are transactional.
//! Every history of begin / commit / rollback / set / set_nested / remove over 3 keys, compared
//! after every operation with a stack-of-snapshots model.
use crate::explore::{self, Config, Mismatch, System};
use crate::report::{hstr, Report};
use crate::{Opts, Tier};
use rust_rule_engine::engine::facts::Facts;
use rust_rule_engine::types::Value;
use serde_json::json;
use std::collections::{BTreeMap, HashMap};

#[derive(Clone, Debug, PartialEq)]
pub enum Op {
    Begin,
    Commit,
    Rollback,
    Set(&'static str, i64),
    SetObj,
    SetNested(i64),
    /// set_nested with a one-segment path: writes the top-level key
    SetNestedTop(&'static str, i64),
    /// the key holds a top-level null (present, not absent)
    SetNull(&'static str),
    /// the key `d` becomes an object that contains an object: {inner: {g: 1}}
    SetDeepObj,
    /// set_nested with a three-segment path: d.inner.g
    SetNestedDeep(i64),
    Remove(&'static str),
}

pub struct Sys {
    f: Facts,
    model: BTreeMap<String, Value>,
    stack: Vec<BTreeMap<String, Value>>,
    alphabet: Vec<Op>,
    pub tags: Vec<&'static str>,
    inner_commit_pending: Vec<bool>, // per open frame: an inner frame was committed inside it after writes
}

fn obj(v: i64) -> Value {
    let mut m = HashMap::new();
    m.insert("f".to_string(), Value::Integer(v));
    Value::Object(m)
}

fn deep_obj(g: i64) -> Value {
    let mut inner = std::collections::HashMap::new();
    inner.insert("g".to_string(), Value::Integer(g));
    let mut outer = std::collections::HashMap::new();
    outer.insert("inner".to_string(), Value::Object(inner));
    Value::Object(outer)
}

pub fn alphabet(level: usize) -> Vec<Op> {
    use Op::*;
    match level {
        0 => vec![Begin, Commit, Rollback, Set("k1", 1), Set("k1", 2), Remove("k1")],
        1 => vec![Begin, Commit, Rollback, Set("k1", 1), Set("k1", 2), Set("k2", 1), SetObj, SetNested(2), Remove("k1"), Remove("o")],
        3 => vec![Begin, Commit, Rollback, Set("k1", 1), SetNestedTop("k1", 2), SetNestedTop("k2", 1), Remove("k1"), SetNull("k1")],
        4 => vec![Begin, Commit, Rollback, SetDeepObj, SetNestedDeep(2), SetNestedDeep(3), Remove("d"), Set("d", 1)],
        _ => vec![Begin, Commit, Rollback, Set("k1", 1), Set("k1", 2), Set("k2", 1), SetObj, SetNested(1), SetNested(2), SetNestedTop("k1", 3), Remove("k1"), Remove("k2"), Remove("o")],
    }
}

impl Sys {
    pub fn new(level: usize) -> Self {
        Sys { f: Facts::new(), model: BTreeMap::new(), stack: vec![], alphabet: alphabet(level), tags: vec![], inner_commit_pending: vec![] }
    }
}

impl System for Sys {
    type Op = Op;
    fn enabled(&self) -> Vec<Op> {
        self.alphabet.clone()
    }
    fn step(&mut self, op: &Op) -> Result<u64, Mismatch> {
        let mut tags: Vec<&str> = vec![];
        match op {
            Op::Begin => {
                self.f.begin_undo_frame();
                self.stack.push(self.model.clone());
                self.inner_commit_pending.push(false);
            }
            Op::Commit => {
                self.f.commit_undo_frame();
                if self.stack.pop().is_some() {
                    self.inner_commit_pending.pop();
                    if let Some(p) = self.inner_commit_pending.last_mut() {
                        *p = true;
                    }
                }
            }
            Op::Rollback => {
                self.f.rollback_undo_frame();
                if let Some(s) = self.stack.pop() {
                    self.model = s;
                    if self.inner_commit_pending.pop() == Some(true) {
                        tags.push("rollback_after_inner_commit");
                    }
                }
            }
            Op::Set(k, v) => {
                self.f.set(k, Value::Integer(*v));
                self.model.insert(k.to_string(), Value::Integer(*v));
            }
            Op::SetObj => {
                self.f.set("o", obj(1));
                self.model.insert("o".to_string(), obj(1));
            }
            Op::SetNested(v) => {
                let r = self.f.set_nested("o.f", Value::Integer(*v));
                match self.model.get_mut("o") {
                    Some(Value::Object(m)) => {
                        if r.is_err() {
                            return Err(Mismatch::new("set_nested_failed", format!("set_nested(o.f) failed on an existing object: {:?}", r)));
                        }
                        m.insert("f".to_string(), Value::Integer(*v));
                    }
                    _ => {
                        if r.is_ok() {
                            return Err(Mismatch::new("set_nested_succeeded_without_object", "set_nested(o.f) succeeded although `o` is absent".to_string()));
                        }
                    }
                }
            }
            Op::SetNestedTop(k, v) => {
                if let Err(e) = self.f.set_nested(k, Value::Integer(*v)) {
                    return Err(Mismatch::new("set_nested_failed", format!("set_nested({}) with a one-segment path failed: {:?}", k, e)));
                }
                self.model.insert(k.to_string(), Value::Integer(*v));
            }
            Op::SetNull(k) => {
                self.f.set(k, Value::Null);
                self.model.insert(k.to_string(), Value::Null);
            }
            Op::SetDeepObj => {
                let v = deep_obj(1);
                self.f.set("d", v.clone());
                self.model.insert("d".to_string(), v);
            }
            Op::SetNestedDeep(v) => {
                let r = self.f.set_nested("d.inner.g", Value::Integer(*v));
                let is_deep = matches!(self.model.get("d"), Some(Value::Object(m)) if matches!(m.get("inner"), Some(Value::Object(_))));
                if is_deep {
                    if r.is_err() {
                        return Err(Mismatch::new("set_nested_failed", format!("set_nested(d.inner.g) failed on an existing nested object: {:?}", r)));
                    }
                    self.model.insert("d".to_string(), deep_obj(*v));
                } else if r.is_ok() {
                    return Err(Mismatch::new("set_nested_succeeded_without_object", "set_nested(d.inner.g) succeeded although d.inner is not an object".to_string()));
                }
            }
            Op::Remove(k) => {
                let got = self.f.remove(k);
                let exp = self.model.remove(*k);
                if got != exp {
                    return Err(Mismatch::new("remove_result", format!("remove({}) returned {:?}, expected {:?}", k, got, exp)));
                }
            }
        }
        let got: BTreeMap<String, Value> = self.f.get_all_facts().into_iter().collect();
        if got != self.model {
            let class = if matches!(op, Op::Rollback) { "rollback_did_not_restore" } else { "facts_differ_from_model" };
            return Err(Mismatch::tagged(class, format!("after {:?}: facts {:?}, expected {:?}", op, got, self.model), &tags));
        }
        for k in ["k1", "k2", "o", "d"] {
            if self.f.get(k) != self.model.get(k).cloned() || self.f.contains(k) != self.model.contains_key(k) {
                return Err(Mismatch::new("facts_differ_from_model", format!("get/contains({}) disagree with get_all_facts", k)));
            }
        }
        Ok(hstr(&format!("{:?}", got)))
    }
    fn kind(op: &Op) -> String {
        match op {
            Op::Begin => "begin",
            Op::Commit => "commit",
            Op::Rollback => "rollback",
            Op::Set(..) | Op::SetNull(_) => "set",
            Op::SetObj => "set_object",
            Op::SetNested(_) | Op::SetNestedTop(..) | Op::SetNestedDeep(_) => "set_nested",
            Op::SetDeepObj => "set_object",
            Op::Remove(_) => "remove",
        }
        .to_string()
    }
    fn model_state(&self) -> u64 {
        hstr(&format!("{:?}|{:?}", self.model, self.stack))
    }
}

pub fn run_frames(opts: &Opts) -> Vec<Report> {
    let plan: Vec<(&str, usize, usize)> = match opts.tier {
        Tier::Quick => vec![("undo_full_len6", 2, 6), ("undo_mid_len7", 1, 7), ("undo_small_len9", 0, 9), ("undo_top_level_set_nested_len7", 3, 7), ("undo_three_segment_set_nested_len7", 4, 7)],
        Tier::Thorough => vec![("undo_full_len7", 2, 7), ("undo_mid_len8", 1, 8), ("undo_small_len10", 0, 10), ("undo_top_level_set_nested_len10", 3, 10), ("undo_three_segment_set_nested_len9", 4, 9)],
    };
    let mut out = vec![];
    for (name, level, depth) in plan {
        if !crate::props::wants(opts, name) {
            continue;
        }
        let mut cfg = Config::new(name, depth);
        cfg.ctx = json!({"alphabet_level": level});
        cfg.expected_letters = ["begin", "commit", "rollback", "set", "remove"].iter().map(|s| s.to_string()).collect();
        let mut r = explore::explore(&move || Sys::new(level), &cfg);
        r.bound = format!("all histories of length <= {} over {:?}", depth, alphabet(level));
        out.push(r);
    }
    out
}

pub fn replay_frames(case: &serde_json::Value) -> crate::props::ReplayResult {
    let level = case["ctx"]["alphabet_level"].as_u64().unwrap_or(2) as usize;
    let ch = crate::props::choices_of(case);
    crate::props::conv(explore::replay(&move || Sys::new(level), &ch))
}

pub fn run(opts: &Opts) -> Vec<Report> {
    let mut out = run_frames(opts);
    // (b) failed proofs leave the facts untouched: the C09 enumeration with the before/after oracle
    out.extend(crate::props::c09::run_mode(opts, crate::props::c09::Mode::FailedProofs));
    out
}

pub fn replay(case: &serde_json::Value) -> crate::props::ReplayResult {
    if case["sub"].as_str() == Some("horn") {
        return crate::props::c09::replay_mode(case, crate::props::c09::Mode::FailedProofs);
    }
    replay_frames(case)
}
