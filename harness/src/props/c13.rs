//! C13 — watermarks are monotone, late events are accounted for.
//! Every timestamp sequence up to a length over a small domain, per watermark / late-data strategy.
use crate::explore::{self, Config, Mismatch, System};
use crate::report::{hmix, hstr, Report};
use crate::util::event;
use crate::{Opts, Tier};
use rust_rule_engine::streaming::watermark::{LateDataStrategy, WatermarkStrategy, WatermarkedStream};
use rust_rule_engine::types::Value;
use serde_json::json;
use std::time::Duration;

#[derive(Clone, Copy, Debug, PartialEq)]
pub enum Gen {
    Bounded(u64),
    Monotonic,
}
#[derive(Clone, Copy, Debug, PartialEq)]
pub enum Late {
    Drop,
    Allowed(u64),
    Side,
    Recompute,
}

pub struct Sys {
    gen: Gen,
    late: Late,
    ts_alphabet: Vec<u64>,
    s: WatermarkedStream,
    // model
    offered: Vec<(String, u64)>,
    max_ts: u64,
    wm: u64,
    accepted: Vec<String>,
    side: Vec<String>,
    dropped: usize,
    allowed: usize,
    late_n: usize,
}

impl Sys {
    pub fn new(gen: Gen, late: Late, ts_alphabet: &[u64]) -> Self {
        let ws = match gen {
            Gen::Bounded(d) => WatermarkStrategy::BoundedOutOfOrder { max_delay: Duration::from_millis(d) },
            Gen::Monotonic => WatermarkStrategy::MonotonicAscending,
        };
        let ls = match late {
            Late::Drop => LateDataStrategy::Drop,
            Late::Allowed(l) => LateDataStrategy::AllowedLateness { max_lateness: Duration::from_millis(l) },
            Late::Side => LateDataStrategy::SideOutput,
            Late::Recompute => LateDataStrategy::RecomputeWindows,
        };
        Sys {
            gen,
            late,
            ts_alphabet: ts_alphabet.to_vec(),
            s: WatermarkedStream::new(ws, ls),
            offered: vec![],
            max_ts: 0,
            wm: 0,
            accepted: vec![],
            side: vec![],
            dropped: 0,
            allowed: 0,
            late_n: 0,
        }
    }
    fn delay(&self) -> u64 {
        match self.gen {
            Gen::Bounded(d) => d,
            Gen::Monotonic => 0,
        }
    }
}

impl System for Sys {
    type Op = u64;
    fn enabled(&self) -> Vec<u64> {
        self.ts_alphabet.clone()
    }
    fn step(&mut self, ts: &u64) -> Result<u64, Mismatch> {
        let ts = *ts;
        let id = format!("e{}", self.offered.len());
        let wm_before = self.s.current_watermark().timestamp;
        if wm_before != self.wm {
            return Err(Mismatch::new("watermark_value", format!("watermark changed between calls: {} -> {}", self.wm, wm_before)));
        }
        let stats0 = self.s.late_stats();
        let n_events0 = self.s.events().len();
        let n_side0 = self.s.side_output().len();
        let r = self.s.add_event(event(&id, "s", "E", ts, vec![("v", Value::Integer(ts as i64))]));
        if r.is_err() {
            return Err(Mismatch::new("add_event_error", format!("add_event returned {:?}", r)));
        }
        self.offered.push((id.clone(), ts));
        let is_late = ts < wm_before;
        let wm_after = self.s.current_watermark().timestamp;
        let stats = self.s.late_stats();
        // monotone
        if wm_after < wm_before {
            return Err(Mismatch::new("watermark_moved_backwards", format!("watermark {} -> {} on ts {}", wm_before, wm_after, ts)));
        }
        // lateness decision
        let treated_late = stats.total_late == stats0.total_late + 1;
        if stats.total_late != stats0.total_late && !treated_late {
            return Err(Mismatch::new("late_accounting", format!("total_late jumped {} -> {}", stats0.total_late, stats.total_late)));
        }
        if treated_late != is_late {
            return Err(Mismatch::new("late_decision", format!("ts {} vs watermark {}: expected late={}, treated late={}", ts, wm_before, is_late, treated_late)));
        }
        let d_events = self.s.events().len() as i64 - n_events0 as i64;
        let d_side = self.s.side_output().len() as i64 - n_side0 as i64;
        let d_dropped = stats.dropped as i64 - stats0.dropped as i64;
        let d_allowed = stats.allowed as i64 - stats0.allowed as i64;
        if !is_late {
            self.max_ts = self.max_ts.max(ts);
            let expect = self.max_ts.saturating_sub(self.delay());
            if wm_after != expect.max(wm_before) || wm_after != expect {
                return Err(Mismatch::new("watermark_value", format!("after on-time ts {} (max {} delay {}): watermark {} expected {}", ts, self.max_ts, self.delay(), wm_after, expect)));
            }
            if (d_events, d_side, d_dropped, d_allowed) != (1, 0, 0, 0) {
                return Err(Mismatch::new("on_time_event_not_accepted", format!("on-time event: events {:+} side {:+} dropped {:+} allowed {:+}", d_events, d_side, d_dropped, d_allowed)));
            }
            self.accepted.push(id.clone());
        } else {
            self.late_n += 1;
            if wm_after != wm_before {
                return Err(Mismatch::new("watermark_value", format!("late event moved the watermark {} -> {}", wm_before, wm_after)));
            }
            let lateness = wm_before - ts;
            // (events, side, dropped, allowed) deltas permitted by the configured strategy
            let permitted: Vec<(i64, i64, i64, i64)> = match self.late {
                Late::Drop => vec![(0, 0, 1, 0)],
                Late::Side => vec![(0, 1, 0, 0)],
                Late::Recompute => vec![(1, 0, 0, 1)],
                Late::Allowed(l) => {
                    if lateness < l {
                        vec![(1, 0, 0, 1)]
                    } else if lateness > l {
                        vec![(0, 0, 1, 0)]
                    } else {
                        // lateness exactly at the bound: the statement does not say which side is inclusive
                        vec![(1, 0, 0, 1), (0, 0, 1, 0)]
                    }
                }
            };
            let got = (d_events, d_side, d_dropped, d_allowed);
            if !permitted.contains(&got) {
                return Err(Mismatch::new("late_strategy", format!("late ts {} (lateness {}) under {:?}: events/side/dropped/allowed deltas {:?}, permitted {:?}", ts, lateness, self.late, got, permitted)));
            }
            if got.0 == 1 {
                self.accepted.push(id.clone());
            }
            if got.1 == 1 {
                self.side.push(id.clone());
            }
        }
        self.dropped = stats.dropped;
        self.allowed = stats.allowed;
        self.wm = wm_after;
        // conservation: every offered event exactly once in accepted / side output / dropped
        let ev_ids: Vec<String> = self.s.events().iter().map(|e| e.id.clone()).collect();
        let side_ids: Vec<String> = self.s.side_output().iter().map(|e| e.id.clone()).collect();
        let mut a = ev_ids.clone();
        a.sort();
        let mut b = self.accepted.clone();
        b.sort();
        if a != b {
            return Err(Mismatch::new("conservation", format!("events() holds {:?}, accepted so far {:?}", ev_ids, self.accepted)));
        }
        let mut a = side_ids.clone();
        a.sort();
        let mut b = self.side.clone();
        b.sort();
        if a != b {
            return Err(Mismatch::new("conservation", format!("side_output() holds {:?}, expected {:?}", side_ids, self.side)));
        }
        if ev_ids.len() + side_ids.len() + stats.dropped != self.offered.len() {
            return Err(Mismatch::new("conservation", format!("{} accepted + {} side + {} dropped != {} offered", ev_ids.len(), side_ids.len(), stats.dropped, self.offered.len())));
        }
        if stats.total_late != stats.dropped + stats.allowed + stats.side_output || stats.total_late != self.late_n || stats.side_output != side_ids.len() {
            return Err(Mismatch::new("late_accounting", format!("late stats do not add up: {:?} (late events offered: {})", stats, self.late_n)));
        }
        // emitted watermarks never move backwards and never exceed the current one
        let hist: Vec<u64> = self.s.watermark_history().iter().map(|w| w.timestamp).collect();
        if hist.windows(2).any(|w| w[1] < w[0]) || hist.iter().any(|&w| w > wm_after) {
            return Err(Mismatch::new("watermark_moved_backwards", format!("watermark history {:?} (current {})", hist, wm_after)));
        }
        let mut h = hmix(wm_after, self.accepted.len() as u64);
        h = hmix(h, stats.dropped as u64);
        h = hmix(h, side_ids.len() as u64);
        Ok(h)
    }
    fn kind(op: &u64) -> String {
        format!("ts{}", op)
    }
    fn model_state(&self) -> u64 {
        hstr(&format!("{:?}{:?}|{}|{}|{:?}|{:?}|{}", self.gen, self.late, self.max_ts, self.wm, self.accepted, self.side, self.dropped))
    }
}

/// delays and lateness bounds of a second and more, on a coarse timestamp grid (units that do not fit in the
/// sub-second part of a Duration)
fn configs_coarse() -> Vec<(Gen, Late)> {
    // whole and mixed second + millisecond delays (values that do not survive a detour through floating-point
    // seconds), and a lateness bound that means "never drop"
    let gens = [Gen::Bounded(1000), Gen::Bounded(1001), Gen::Bounded(1235), Gen::Bounded(1500), Gen::Bounded(2000), Gen::Bounded(4097), Gen::Bounded(60_000)];
    let lates = [Late::Drop, Late::Allowed(1000), Late::Allowed(2500), Late::Allowed(u64::MAX), Late::Side, Late::Recompute];
    let mut v = vec![];
    for g in gens {
        for l in lates {
            v.push((g, l));
        }
    }
    v
}

fn configs() -> Vec<(Gen, Late)> {
    let gens = [Gen::Bounded(0), Gen::Bounded(1), Gen::Bounded(2), Gen::Bounded(5), Gen::Monotonic];
    let lates = [Late::Drop, Late::Allowed(0), Late::Allowed(1), Late::Allowed(3), Late::Side, Late::Recompute];
    let mut v = vec![];
    for g in gens {
        for l in lates {
            v.push((g, l));
        }
    }
    v
}

pub fn run(opts: &Opts) -> Vec<Report> {
    let mut out = vec![];
    let full: Vec<u64> = vec![0, 1, 2, 3, 5, 8];
    let small: Vec<u64> = vec![0, 1, 3, 5];
    let tiny: Vec<u64> = vec![0, 2, 5];
    let plan: Vec<(&str, Vec<u64>, usize)> = match opts.tier {
        Tier::Quick => vec![("wm_len6", full.clone(), 6), ("wm_len8_small", small.clone(), 8), ("wm_len12_tiny", tiny.clone(), 11), ("wm_seconds_len6", vec![0, 500, 1000, 2500, 4000, 70_000], 6)],
        Tier::Thorough => vec![("wm_len8", full.clone(), 8), ("wm_len10_small", small.clone(), 10), ("wm_len12_tiny", tiny.clone(), 12), ("wm_seconds_len8", vec![0, 500, 1000, 2500, 4000, 70_000], 8)],
    };
    for (name, alpha, depth) in plan {
        if !crate::props::wants(opts, name) {
            continue;
        }
        let mut total = Report::new(name);
        let coarse = name.starts_with("wm_seconds");
        for (g, l) in if coarse { configs_coarse() } else { configs() } {
            let mut cfg = Config::new(name, depth);
            cfg.ctx = json!({"gen": format!("{:?}", g), "late": format!("{:?}", l), "timestamps": alpha});
            let a = alpha.clone();
            let r = explore::explore(&move || Sys::new(g, l, &a), &cfg);
            total.bound = if coarse { format!("all timestamp sequences of length <= {} over {:?} ms x delays 1000, 1001, 1235, 1500, 2000, 4097, 60000 ms x 6 late-data strategies (lateness bounds 1 s, 2.5 s, u64::MAX ms)", depth, alpha) } else { format!("all timestamp sequences of length <= {} over {:?} x 5 watermark generators x 6 late-data strategies", depth, alpha) };
            total.merge(r);
        }
        total.count("nontrivial", 0);
        out.push(total);
    }
    out
}

fn parse_cfg(case: &serde_json::Value) -> (Gen, Late, Vec<u64>) {
    let ctx = &case["ctx"];
    let gs = ctx["gen"].as_str().unwrap_or("Monotonic");
    let ls = ctx["late"].as_str().unwrap_or("Drop");
    let num = |s: &str| -> u64 { s.chars().filter(|c| c.is_ascii_digit()).collect::<String>().parse().unwrap_or(0) };
    let g = if gs.starts_with("Bounded") { Gen::Bounded(num(gs)) } else { Gen::Monotonic };
    let l = if ls.starts_with("Allowed") {
        Late::Allowed(num(ls))
    } else if ls == "Side" {
        Late::Side
    } else if ls == "Recompute" {
        Late::Recompute
    } else {
        Late::Drop
    };
    let ts: Vec<u64> = ctx["timestamps"].as_array().map(|a| a.iter().filter_map(|x| x.as_u64()).collect()).unwrap_or_else(|| vec![0, 1, 2, 3, 5, 8]);
    (g, l, ts)
}

pub fn replay(case: &serde_json::Value) -> crate::props::ReplayResult {
    let (g, l, ts) = parse_cfg(case);
    let ch = crate::props::choices_of(case);
    crate::props::conv(explore::replay(&move || Sys::new(g, l, &ts), &ch))
}
