//! C16 — indexes and memoisation agree with the plain computation.
//! (a) AlphaMemoryIndex: filter with/without index across inserts / create_index / drop_index
//! (b) BetaMemoryIndex: add / remove / lookup against a multimap
//! (c) MemoizedEvaluator: sequences of evaluations over fact sets that print alike
//! (d) ConclusionIndex: add_rule / remove_rule / find_candidates against a scan of the rule actions
use crate::explore::{self, Config, Mismatch, System};
use crate::report::{hstr, Report};
use crate::{Opts, Tier};
use rust_rule_engine::backward::conclusion_index::ConclusionIndex;
use rust_rule_engine::engine::rule::{Condition, ConditionGroup, Rule};
use rust_rule_engine::rete::AlphaNode;
use rust_rule_engine::rete::alpha_memory_index::AlphaMemoryIndex;
use rust_rule_engine::rete::facts::{FactValue, TypedFacts};
use rust_rule_engine::rete::memoization::MemoizedEvaluator;
use rust_rule_engine::rete::network::ReteUlNode;
use rust_rule_engine::rete::optimization::BetaMemoryIndex;
use rust_rule_engine::types::{ActionType, Operator, Value};
use serde_json::json;
use std::collections::{BTreeMap, BTreeSet};

fn values() -> Vec<FactValue> {
    vec![
        FactValue::Integer(0),
        FactValue::Integer(5),
        FactValue::Float(-0.0),
        FactValue::Float(0.0),
        FactValue::Float(5.0),
        FactValue::Float(f64::NAN),
        FactValue::String("5".into()),
        FactValue::String("5.0".into()),
        FactValue::String("true".into()),
        FactValue::Boolean(true),
        FactValue::Null,
        FactValue::Array(vec![FactValue::Integer(1)]),
        FactValue::String("a".into()),
        // floats only inside a nested array
        FactValue::Array(vec![FactValue::Array(vec![FactValue::Float(-0.0)])]),
        FactValue::Array(vec![FactValue::Array(vec![FactValue::Float(0.0)])]),
        FactValue::Array(vec![FactValue::Array(vec![FactValue::Float(f64::NAN)]), FactValue::Null]),
    ]
}

fn value_tag(v: &FactValue) -> &'static str {
    match v {
        FactValue::Float(f) if f.is_nan() => "value_nan",
        FactValue::Float(f) if *f == 0.0 => "value_signed_zero",
        _ => "value_other",
    }
}

// ------------------------------------------------------------------------------------------------
// (a) alpha memory index

#[derive(Clone, Debug)]
pub enum AOp {
    Insert(Option<usize>), // value index, None = fact without the field
    CreateIndex,
    DropIndex,
}

#[derive(Clone)]
pub struct AlphaSys {
    idx: AlphaMemoryIndex,
    vals: Vec<FactValue>,
    n: usize,
    pub comparisons: u64,
}

impl AlphaSys {
    pub fn nested() -> Self {
        let v = values();
        AlphaSys { idx: AlphaMemoryIndex::new(), vals: vec![v[13].clone(), v[14].clone(), v[15].clone(), v[11].clone(), v[3].clone()], n: 0, comparisons: 0 }
    }
    pub fn new(nvals: usize) -> Self {
        AlphaSys { idx: AlphaMemoryIndex::new(), vals: values().into_iter().take(nvals).collect(), n: 0, comparisons: 0 }
    }
}

impl System for AlphaSys {
    type Op = AOp;
    fn enabled(&self) -> Vec<AOp> {
        let mut v: Vec<AOp> = (0..self.vals.len()).map(|i| AOp::Insert(Some(i))).collect();
        v.push(AOp::Insert(None));
        v.push(AOp::CreateIndex);
        v.push(AOp::DropIndex);
        v
    }
    fn step(&mut self, op: &AOp) -> Result<u64, Mismatch> {
        match op {
            AOp::Insert(v) => {
                let mut f = TypedFacts::new();
                f.set("id", self.n as i64);
                if let Some(i) = v {
                    f.set("f", self.vals[*i].clone());
                }
                self.n += 1;
                self.idx.insert(f);
            }
            AOp::CreateIndex => self.idx.create_index("f".to_string()),
            AOp::DropIndex => self.idx.drop_index("f"),
        }
        let indexed = self.idx.indexed_fields().iter().any(|s| s.as_str() == "f");
        let mut obs = String::new();
        for v in self.vals.clone() {
            let ids = |r: Vec<&TypedFacts>| -> Vec<i64> {
                let mut x: Vec<i64> = r.iter().filter_map(|f| f.get("id").and_then(|i| i.as_integer())).collect();
                x.sort();
                x
            };
            let plain: Vec<i64> = {
                let mut x: Vec<i64> = self.idx.get_all().iter().filter(|f| f.get("f") == Some(&v)).filter_map(|f| f.get("id").and_then(|i| i.as_integer())).collect();
                x.sort();
                x
            };
            let got = ids(self.idx.filter("f", &v));
            let got_tracked = ids(self.idx.filter_tracked("f", &v));
            self.comparisons += 2;
            if got != plain || got_tracked != plain {
                return Err(Mismatch::tagged(
                    "indexed_filter_differs_from_scan",
                    format!("after {:?} (index on f: {}): filter(f, {:?}) = facts {:?} / tracked {:?}, linear `==` scan = {:?}", op, indexed, v, got, got_tracked, plain),
                    &[value_tag(&v)],
                ));
            }
            obs.push_str(&format!("{:?};", got));
        }
        Ok(hstr(&obs))
    }
    fn kind(op: &AOp) -> String {
        match op {
            AOp::Insert(_) => "insert",
            AOp::CreateIndex => "create_index",
            AOp::DropIndex => "drop_index",
        }
        .to_string()
    }
    fn model_state(&self) -> u64 {
        let indexed = self.idx.indexed_fields().len();
        hstr(&format!("{}|{:?}", indexed, self.idx.get_all().iter().map(|f| format!("{:?}", f.get("f"))).collect::<Vec<_>>()))
    }
    fn try_clone(&self) -> Option<Self> {
        Some(self.clone())
    }
}

// (a') alpha memory index with several indexed fields: a fact may lack some of them
#[derive(Clone, Debug)]
pub enum MOp {
    Insert([u8; 3]), // per field f,g,h: 0 = absent, 1 = 5, 2 = NaN
    CreateIndex(usize),
    DropIndex(usize),
}

const MFIELDS: [&str; 3] = ["f", "g", "h"];

#[derive(Clone)]
pub struct AlphaMultiSys {
    idx: AlphaMemoryIndex,
    n: usize,
}

impl AlphaMultiSys {
    pub fn new() -> Self {
        AlphaMultiSys { idx: AlphaMemoryIndex::new(), n: 0 }
    }
}

impl System for AlphaMultiSys {
    type Op = MOp;
    fn enabled(&self) -> Vec<MOp> {
        let mut v = vec![];
        for a in 0..3u8 {
            for b in 0..3u8 {
                for c in 0..3u8 {
                    v.push(MOp::Insert([a, b, c]));
                }
            }
        }
        for i in 0..3 {
            v.push(MOp::CreateIndex(i));
            v.push(MOp::DropIndex(i));
        }
        v
    }
    fn step(&mut self, op: &MOp) -> Result<u64, Mismatch> {
        match op {
            MOp::Insert(p) => {
                let mut f = TypedFacts::new();
                f.set("id", self.n as i64);
                for (i, k) in p.iter().enumerate() {
                    match k {
                        1 => f.set(MFIELDS[i], FactValue::Integer(5)),
                        2 => f.set(MFIELDS[i], FactValue::Float(f64::NAN)),
                        _ => {}
                    }
                }
                self.n += 1;
                self.idx.insert(f);
            }
            MOp::CreateIndex(i) => self.idx.create_index(MFIELDS[*i].to_string()),
            MOp::DropIndex(i) => self.idx.drop_index(MFIELDS[*i]),
        }
        let mut obs = String::new();
        for field in MFIELDS {
            for v in [FactValue::Integer(5), FactValue::Float(f64::NAN), FactValue::Integer(0)] {
                let ids = |r: Vec<&TypedFacts>| -> Vec<i64> {
                    let mut x: Vec<i64> = r.iter().filter_map(|f| f.get("id").and_then(|i| i.as_integer())).collect();
                    x.sort();
                    x
                };
                let mut plain: Vec<i64> = self.idx.get_all().iter().filter(|f| f.get(field) == Some(&v)).filter_map(|f| f.get("id").and_then(|i| i.as_integer())).collect();
                plain.sort();
                let got = ids(self.idx.filter(field, &v));
                let got_tracked = ids(self.idx.filter_tracked(field, &v));
                if got != plain || got_tracked != plain {
                    let mut indexed: Vec<String> = self.idx.indexed_fields().iter().map(|s| s.to_string()).collect();
                    indexed.sort();
                    return Err(Mismatch::tagged(
                        "indexed_filter_differs_from_scan",
                        format!("after {:?} (indexes on {:?}): filter({}, {:?}) = facts {:?} / tracked {:?}, linear `==` scan = {:?}", op, indexed, field, v, got, got_tracked, plain),
                        &["several_indexed_fields"],
                    ));
                }
                obs.push_str(&format!("{:?};", got));
            }
        }
        Ok(hstr(&obs))
    }
    fn kind(op: &MOp) -> String {
        match op {
            MOp::Insert(_) => "insert",
            MOp::CreateIndex(_) => "create_index",
            MOp::DropIndex(_) => "drop_index",
        }
        .to_string()
    }
    fn model_state(&self) -> u64 {
        let mut indexed: Vec<String> = self.idx.indexed_fields().iter().map(|s| s.to_string()).collect();
        indexed.sort();
        hstr(&format!("{:?}|{:?}", indexed, self.idx.get_all().iter().map(|f| format!("{:?}{:?}{:?}", f.get("f"), f.get("g"), f.get("h"))).collect::<Vec<_>>()))
    }
    fn try_clone(&self) -> Option<Self> {
        Some(self.clone())
    }
}

// ------------------------------------------------------------------------------------------------
// (b) beta memory index

fn beta_facts() -> Vec<TypedFacts> {
    let mk = |v: Option<FactValue>| {
        let mut f = TypedFacts::new();
        if let Some(v) = v {
            f.set("k", v);
        }
        f.set("other", 1i64);
        f
    };
    vec![mk(Some("u1".into())), mk(Some("u1".into())), mk(Some(FactValue::Integer(5))), mk(Some("5".into())), mk(None)]
}

#[derive(Clone, Debug)]
pub enum BOp {
    Add(usize),
    Remove(usize),
}

pub struct BetaSys {
    idx: BetaMemoryIndex,
    facts: Vec<TypedFacts>,
    live: Vec<bool>,
}

impl BetaSys {
    pub fn new() -> Self {
        BetaSys { idx: BetaMemoryIndex::new("k".to_string()), facts: beta_facts(), live: vec![false; 5] }
    }
}

impl System for BetaSys {
    type Op = BOp;
    fn enabled(&self) -> Vec<BOp> {
        let mut v = vec![];
        for i in 0..self.facts.len() {
            if !self.live[i] {
                v.push(BOp::Add(i));
            }
            v.push(BOp::Remove(i));
        }
        v
    }
    fn step(&mut self, op: &BOp) -> Result<u64, Mismatch> {
        match op {
            BOp::Add(i) => {
                self.idx.add(&self.facts[*i], *i);
                self.live[*i] = true;
            }
            BOp::Remove(i) => {
                self.idx.remove(&self.facts[*i], *i);
                self.live[*i] = false;
            }
        }
        let mut model: BTreeMap<String, Vec<usize>> = BTreeMap::new();
        for i in 0..self.facts.len() {
            if self.live[i] {
                if let Some(v) = self.facts[i].get("k") {
                    model.entry(format!("{:?}", v)).or_default().push(i);
                }
            }
        }
        let mut obs = String::new();
        for key in ["String(\"u1\")", "Integer(5)", "String(\"5\")", "String(\"zz\")", "Null"] {
            let mut got: Vec<usize> = self.idx.lookup(key).to_vec();
            got.sort();
            let exp = model.get(key).cloned().unwrap_or_default();
            if got != exp {
                return Err(Mismatch::new("join_key_lookup_differs", format!("after {:?}: lookup({}) = {:?}, live facts carrying that key = {:?}", op, key, got, exp)));
            }
            obs.push_str(&format!("{:?};", got));
        }
        if self.idx.size() != model.len() {
            return Err(Mismatch::new("join_key_lookup_differs", format!("after {:?}: index holds {} keys, live facts carry {}", op, self.idx.size(), model.len())));
        }
        Ok(hstr(&obs))
    }
    fn kind(op: &BOp) -> String {
        match op {
            BOp::Add(_) => "add",
            BOp::Remove(_) => "remove",
        }
        .to_string()
    }
    fn model_state(&self) -> u64 {
        hstr(&format!("{:?}", self.live))
    }
}

// ------------------------------------------------------------------------------------------------
// (c) memoised evaluation

fn alpha(field: &str, op: &str, value: &str) -> ReteUlNode {
    ReteUlNode::UlAlpha(AlphaNode { field: field.to_string(), operator: op.to_string(), value: value.to_string() })
}

fn memo_nodes() -> Vec<ReteUlNode> {
    vec![
        alpha("x", "==", "5"),
        alpha("x", "!=", "5"),
        alpha("x", ">", "4"),
        alpha("x", "==", "true"),
        alpha("x", "==", "5.0"),
        ReteUlNode::UlAnd(Box::new(alpha("x", "==", "5")), Box::new(alpha("y", "==", "1"))),
        ReteUlNode::UlNot(Box::new(alpha("x", "==", "5"))),
    ]
}

fn memo_facts() -> Vec<TypedFacts> {
    let xs: Vec<Option<FactValue>> = vec![
        Some(FactValue::Integer(5)),
        Some(FactValue::Float(5.0)),
        Some(FactValue::String("5".into())),
        Some(FactValue::String("5.0".into())),
        Some(FactValue::Boolean(true)),
        Some(FactValue::String("true".into())),
        Some(FactValue::Integer(1)),
        Some(FactValue::Null),
        None,
    ];
    xs.into_iter()
        .map(|x| {
            let mut f = TypedFacts::new();
            if let Some(x) = x {
                f.set("x", x);
            }
            f.set("y", 1i64);
            f
        })
        .collect()
}

/// fact sets that hold the same values under different fields (permutations, shifts, subsets)
fn memo_facts_structure() -> Vec<TypedFacts> {
    let mut out = vec![];
    for a in 0..3u8 {
        for b in 0..3u8 {
            for c in 0..3u8 {
                let mut f = TypedFacts::new();
                for (name, k) in [("x", a), ("y", b), ("z", c)] {
                    match k {
                        1 => f.set(name, 1i64),
                        2 => f.set(name, 5i64),
                        _ => {}
                    }
                }
                out.push(f);
            }
        }
    }
    out
}

fn memo_nodes_structure() -> Vec<ReteUlNode> {
    vec![
        alpha("x", "==", "5"),
        alpha("y", "==", "5"),
        alpha("z", "==", "5"),
        alpha("x", ">", "4"),
        ReteUlNode::UlAnd(Box::new(alpha("x", "==", "5")), Box::new(alpha("y", "==", "1"))),
        ReteUlNode::UlAnd(Box::new(alpha("y", "==", "5")), Box::new(alpha("z", "==", "1"))),
        ReteUlNode::UlNot(Box::new(alpha("x", "==", "5"))),
        // the operand names another fact (field-to-field comparison)
        alpha("x", ">", "y"),
        alpha("x", "==", "z"),
    ]
}

pub struct MemoSys {
    m: MemoizedEvaluator,
    nodes: Vec<ReteUlNode>,
    facts: Vec<TypedFacts>,
    seen: BTreeSet<(usize, usize)>,
}

impl MemoSys {
    pub fn new() -> Self {
        MemoSys { m: MemoizedEvaluator::new(), nodes: memo_nodes(), facts: memo_facts(), seen: BTreeSet::new() }
    }
    pub fn new_structure() -> Self {
        MemoSys { m: MemoizedEvaluator::new(), nodes: memo_nodes_structure(), facts: memo_facts_structure(), seen: BTreeSet::new() }
    }
}

impl System for MemoSys {
    type Op = (usize, usize);
    fn enabled(&self) -> Vec<(usize, usize)> {
        let mut v = vec![];
        for n in 0..self.nodes.len() {
            for f in 0..self.facts.len() {
                v.push((n, f));
            }
        }
        v
    }
    fn step(&mut self, op: &(usize, usize)) -> Result<u64, Mismatch> {
        let (n, f) = *op;
        let direct = self.nodes[n].evaluate_typed(&self.facts[f]);
        let memo = self.m.evaluate(&self.nodes[n], &self.facts[f], |node, facts| node.evaluate_typed(facts));
        self.seen.insert((n, f));
        if memo != direct {
            return Err(Mismatch::new(
                "memoised_evaluation_differs",
                format!("node {:?} on facts x={:?} y={:?} z={:?}: memoised {} but direct evaluation {} (evaluated before: {:?})", self.nodes[n], self.facts[f].get("x"), self.facts[f].get("y"), self.facts[f].get("z"), memo, direct, self.seen),
            ));
        }
        Ok(direct as u64)
    }
    fn kind(op: &(usize, usize)) -> String {
        format!("node{}", op.0)
    }
    fn model_state(&self) -> u64 {
        hstr(&format!("{:?}", self.seen))
    }
}

// ------------------------------------------------------------------------------------------------
// (d) conclusion index

const FIELDS: [&str; 5] = ["F.a", "F.b", "G.a", "flag", "F.n.k"];

fn rule(name: &str, field: &str, enabled: bool) -> Rule {
    let mut r = Rule::new(
        name.to_string(),
        ConditionGroup::single(Condition::new("In.x".to_string(), Operator::Equal, Value::Boolean(true))),
        vec![ActionType::Log { message: "m".to_string() }, ActionType::Set { field: field.to_string(), value: Value::Boolean(true) }],
    );
    r.enabled = enabled;
    r
}

fn goals(field: &str) -> Vec<String> {
    let mut g = vec![
        format!("{} == true", field),
        format!("{}==true", field),
        format!("{} != \"x\"", field),
        format!("{} >= 5", field),
        format!("{}<=5", field),
        format!("{} > 5", field),
        format!("{} < 5", field),
        format!("{} == \"a<b\"", field),
        format!("{} == \">=\"", field),
        format!("  {} == true  ", field),
    ];
    if field.contains('.') {
        // an operator spelled inside the literal before... only where the object-prefix rule applies
        g.push(format!("{} != \"a==b\"", field));
    }
    g
}

#[derive(Clone, Debug)]
pub enum COp {
    Add(usize, usize, bool), // rule slot, field index, enabled
    Remove(usize),
}

#[derive(Clone)]
pub struct ConcSys {
    idx: ConclusionIndex,
    slots: usize,
    model: BTreeMap<usize, (usize, bool)>,
    pub lookups: u64,
}

impl ConcSys {
    pub fn new(slots: usize) -> Self {
        ConcSys { idx: ConclusionIndex::new(), slots, model: BTreeMap::new(), lookups: 0 }
    }
}

impl System for ConcSys {
    type Op = COp;
    fn enabled(&self) -> Vec<COp> {
        let mut v = vec![];
        for s in 0..self.slots {
            if !self.model.contains_key(&s) {
                for f in 0..FIELDS.len() {
                    v.push(COp::Add(s, f, true));
                }
                v.push(COp::Add(s, s % FIELDS.len(), false));
            }
            v.push(COp::Remove(s));
        }
        v
    }
    fn step(&mut self, op: &COp) -> Result<u64, Mismatch> {
        match op {
            COp::Add(s, f, en) => {
                self.idx.add_rule(&rule(&format!("R{}", s), FIELDS[*f], *en));
                self.model.insert(*s, (*f, *en));
            }
            COp::Remove(s) => {
                self.idx.remove_rule(&format!("R{}", s));
                self.model.remove(s);
            }
        }
        let mut obs = String::new();
        for (fi, field) in FIELDS.iter().enumerate() {
            let must: BTreeSet<String> = self.model.iter().filter(|(_, (f, en))| *f == fi && *en).map(|(s, _)| format!("R{}", s)).collect();
            for g in goals(field) {
                let got: BTreeSet<String> = self.idx.find_candidates(&g).into_iter().collect();
                self.lookups += 1;
                if !must.is_subset(&got) {
                    return Err(Mismatch::new("conclusion_index_misses_rule", format!("after {:?}: find_candidates({:?}) = {:?} but enabled rules {:?} assign {}", op, g, got, must, field)));
                }
                // never a rule that is not in the index at all
                for r in &got {
                    let slot: usize = r[1..].parse().unwrap_or(99);
                    if !self.model.contains_key(&slot) {
                        return Err(Mismatch::new("conclusion_index_proposes_removed_rule", format!("after {:?}: find_candidates({:?}) proposes {} which was removed", op, g, r)));
                    }
                }
                obs.push_str(&format!("{:?};", got));
            }
        }
        Ok(hstr(&obs))
    }
    fn kind(op: &COp) -> String {
        match op {
            COp::Add(_, _, true) => "add_rule",
            COp::Add(_, _, false) => "add_disabled_rule",
            COp::Remove(_) => "remove_rule",
        }
        .to_string()
    }
    fn model_state(&self) -> u64 {
        hstr(&format!("{:?}", self.model))
    }
    fn try_clone(&self) -> Option<Self> {
        Some(self.clone())
    }
}

pub fn run(opts: &Opts) -> Vec<Report> {
    let quick = opts.tier == Tier::Quick;
    let mut out = vec![];
    if crate::props::wants(opts, "alpha_index") {
        let depth = if quick { 5 } else { 6 };
        let mut cfg = Config::new("alpha_index", depth);
        cfg.ctx = json!({"values": 16});
        cfg.expected_letters = vec!["insert".into(), "create_index".into(), "drop_index".into()];
        let mut r = explore::explore(&|| AlphaSys::new(16), &cfg);
        r.bound = format!("all histories of length <= {} over insert(f in 16 values | missing) / create_index / drop_index; after every step filter(f, v) and filter_tracked for all 16 values vs a linear == scan", depth);
        out.push(r);
        // deeper on the collision-prone sub-alphabet
        let depth2 = if quick { 7 } else { 9 };
        let mut cfg = Config::new("alpha_index_zero_nan", depth2);
        cfg.ctx = json!({"values": 6});
        let mut r = explore::explore(&|| AlphaSys::new(6), &cfg);
        r.bound = format!("same, values {{0, 5, -0.0, 0.0, 5.0, NaN}}, length <= {}", depth2);
        out.push(r);
        let mut cfg = Config::new("alpha_index_nested_arrays", depth2);
        cfg.ctx = json!({"values": "nested"});
        let mut r = explore::explore(&AlphaSys::nested, &cfg);
        r.bound = format!("same, values {{[[-0.0]], [[0.0]], [[NaN], null], [1], 0.0}}, length <= {}", depth2);
        out.push(r);
    }
    if crate::props::wants(opts, "alpha_index_several_fields") {
        let depth = if quick { 4 } else { 5 };
        let mut cfg = Config::new("alpha_index_several_fields", depth);
        cfg.expected_letters = vec!["insert".into(), "create_index".into(), "drop_index".into()];
        let mut r = explore::explore(&AlphaMultiSys::new, &cfg);
        r.bound = format!("all histories of length <= {} over insert(each of f, g, h absent / 5 / NaN) / create_index(f|g|h) / drop_index(f|g|h); after every step filter and filter_tracked on every field for 5, NaN, 0 vs a linear == scan", depth);
        out.push(r);
    }
    if crate::props::wants(opts, "beta_index") {
        let depth = if quick { 7 } else { 9 };
        let mut cfg = Config::new("beta_index", depth);
        cfg.expected_letters = vec!["add".into(), "remove".into()];
        let mut r = explore::explore(&BetaSys::new, &cfg);
        r.bound = format!("all histories of length <= {} over add(i) / remove(i) on 5 facts (two share a key, one has no key, 5 vs \"5\"); lookups of 5 keys after every step", depth);
        out.push(r);
    }
    if crate::props::wants(opts, "memo") {
        let depth = if quick { 3 } else { 4 };
        let cfg = Config::new("memo", depth);
        let mut r = explore::explore(&MemoSys::new, &cfg);
        r.bound = format!("all sequences of <= {} evaluate(node, facts) calls over 7 nodes x 9 fact sets that print alike but differ in type", depth);
        out.push(r);
    }
    if crate::props::wants(opts, "memo_field_structure") {
        let depth = if quick { 2 } else { 3 };
        let cfg = Config::new("memo_field_structure", depth);
        let mut r = explore::explore(&MemoSys::new_structure, &cfg);
        r.bound = format!("all sequences of <= {} evaluate(node, facts) calls over 9 nodes (two with an operand that names another fact) x 27 fact sets (each of x, y, z absent / 1 / 5: the same values under different fields)", depth);
        out.push(r);
    }
    if crate::props::wants(opts, "conclusion_index") {
        let depth = if quick { 5 } else { 6 };
        let mut cfg = Config::new("conclusion_index", depth);
        cfg.expected_letters = vec!["add_rule".into(), "add_disabled_rule".into(), "remove_rule".into()];
        let mut r = explore::explore(&|| ConcSys::new(3), &cfg);
        r.bound = format!("all histories of length <= {} over add_rule(slot, field in {:?}, enabled/disabled) / remove_rule on 3 rule slots; find_candidates for 10-11 goal spellings per field after every step", depth, FIELDS);
        r.assumptions.push("goal spellings: the six comparison operators a query can contain, spaced and unspaced, operator characters inside string literals; undotted fields with an operator inside the literal are outside the alphabet (the engine's linear fallback serves them)".into());
        out.push(r);
    }
    out
}

pub fn replay(case: &serde_json::Value) -> crate::props::ReplayResult {
    let ch = crate::props::choices_of(case);
    let r = match case["sub"].as_str().unwrap_or("") {
        "alpha_index" => explore::replay(&|| AlphaSys::new(16), &ch),
        "alpha_index_zero_nan" => explore::replay(&|| AlphaSys::new(6), &ch),
        "alpha_index_nested_arrays" => explore::replay(&AlphaSys::nested, &ch),
        "alpha_index_several_fields" => explore::replay(&AlphaMultiSys::new, &ch),
        "memo_field_structure" => explore::replay(&MemoSys::new_structure, &ch),
        "beta_index" => explore::replay(&BetaSys::new, &ch),
        "memo" => explore::replay(&MemoSys::new, &ch),
        _ => explore::replay(&|| ConcSys::new(3), &ch),
    };
    crate::props::conv(r)
}
