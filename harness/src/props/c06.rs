//! C06 — the incremental (RETE) engine fires a rule exactly for live facts that satisfy it.
//! Rules are written in GRL, parsed by the real parser and converted by the real loader (hook H4
//! hands back the converted rule so that its action closure can be wrapped in a recorder).
use crate::explore::{self, Config, Mismatch, System};
use crate::report::{hstr, Report, Violation};
use std::time::Instant;
use crate::{Opts, Tier};
use rust_rule_engine::parser::grl::GRLParser;
use rust_rule_engine::rete::facts::{FactValue, TypedFacts};
use rust_rule_engine::rete::grl_loader::GrlReteLoader;
use rust_rule_engine::rete::propagation::IncrementalEngine;
use rust_rule_engine::rete::working_memory::FactHandle;
use rust_rule_engine::rete::ActionResults;
use serde_json::json;
use std::collections::{BTreeMap, BTreeSet};
use std::sync::{Arc, Mutex};

#[derive(Clone, Debug)]
struct RuleSpec {
    name: &'static str,
    ty: &'static str,
    op: &'static str,
    rhs: i64,
}

struct RuleSet {
    name: &'static str,
    grl: &'static str,
    rules: Vec<RuleSpec>,
    action_free: bool,
    types: Vec<&'static str>,
}

fn rule_sets() -> Vec<RuleSet> {
    let r = |name, ty, op, rhs| RuleSpec { name, ty, op, rhs };
    vec![
        RuleSet {
            name: "one_plain_rule",
            grl: r#"rule "A" no-loop { when T0.v >= 2 then log("a"); }"#,
            rules: vec![r("A", "T0", ">=", 2)],
            action_free: true,
            types: vec!["T0", "T1"],
        },
        RuleSet {
            name: "two_rules_one_type",
            grl: r#"rule "A" salience 5 no-loop { when T0.v >= 2 then log("a"); }
rule "B" no-loop { when T0.v == 5 then log("b"); }"#,
            rules: vec![r("A", "T0", ">=", 2), r("B", "T0", "==", 5)],
            action_free: true,
            types: vec!["T0", "T1"],
        },
        RuleSet {
            name: "high_salience_modifies_tested_field",
            grl: r#"rule "H" salience 10 no-loop { when T0.v == 5 then T0.v = 0; }
rule "L" no-loop { when T0.v == 5 then log("l"); }"#,
            rules: vec![r("H", "T0", "==", 5), r("L", "T0", "==", 5)],
            action_free: false,
            types: vec!["T0"],
        },
        RuleSet {
            name: "rule_retracts_matched_fact",
            grl: r#"rule "R" salience 10 no-loop { when T0.v >= 2 then retract($T0); }
rule "S" no-loop { when T0.v >= 2 then log("s"); }"#,
            rules: vec![r("R", "T0", ">=", 2), r("S", "T0", ">=", 2)],
            action_free: false,
            types: vec!["T0"],
        },
        RuleSet {
            name: "rule_on_second_type_only",
            grl: r#"rule "X" no-loop { when T1.v >= 2 then log("x"); }"#,
            rules: vec![r("X", "T1", ">=", 2)],
            action_free: true,
            types: vec!["T0", "T1", "T2"],
        },
        RuleSet {
            name: "two_types_two_rules",
            grl: r#"rule "P" no-loop { when T0.v == 5 then log("p"); }
rule "Q" salience 3 no-loop { when T1.v < 5 then log("q"); }"#,
            rules: vec![r("P", "T0", "==", 5), r("Q", "T1", "<", 5)],
            action_free: true,
            types: vec!["T0", "T1"],
        },
        // non-integral float literals against integer facts: `>= 5.5` is `>= 6`, `< 5.5` is `< 6`, `== 5.5` never holds
        RuleSet {
            name: "float_literal_on_integer_facts",
            grl: r#"rule "G" no-loop { when T0.v >= 5.5 then log("g"); }
rule "L" no-loop { when T0.v < 5.5 then log("l"); }
rule "E" no-loop { when T0.v == 5.5 then log("e"); }"#,
            rules: vec![r("G", "T0", ">=", 6), r("L", "T0", "<", 6), r("E", "T0", "never", 0)],
            action_free: true,
            types: vec!["T0"],
        },
        // the facts of this rule set hold v as a float (FLOAT_SETS_FROM): integer literal against float fact
        RuleSet {
            name: "gte_lte_on_float_facts",
            grl: r#"rule "R" no-loop { when T0.v >= 5 then log("r"); }
rule "S" no-loop { when T0.v <= 5 then log("s"); }"#,
            rules: vec![r("R", "T0", ">=", 5), r("S", "T0", "<=", 5)],
            action_free: true,
            types: vec!["T0"],
        },
        // the facts of this rule set hold v as a string (TEXT_SETS_FROM): value 0 is "gold", 5 is "  gold", 2 is "gold "
        // — a string literal is compared as written, blanks included
        RuleSet {
            name: "string_literal_with_blanks",
            grl: r#"rule "T" no-loop { when T0.v == "  gold" then log("t"); }
rule "U" no-loop { when T0.v == "gold" then log("u"); }"#,
            rules: vec![r("T", "T0", "==", 5), r("U", "T0", "==", 0)],
            action_free: true,
            types: vec!["T0"],
        },
    ]
}

const FLOAT_SETS_FROM: usize = 7;
const TEXT_SETS_FROM: usize = 8;

fn text_of(v: i64) -> &'static str {
    match v {
        0 => "gold",
        5 => "  gold",
        _ => "gold ",
    }
}

fn num(v: &FactValue) -> Option<i64> {
    match v {
        FactValue::String(s) => match s.as_str() {
            "gold" => Some(0),
            "  gold" => Some(5),
            "gold " => Some(2),
            _ => None,
        },
        FactValue::Float(f) if f.fract() == 0.0 => Some(*f as i64),
        other => other.as_integer(),
    }
}

fn holds(op: &str, v: i64, rhs: i64) -> bool {
    match op {
        ">=" => v >= rhs,
        "<=" => v <= rhs,
        "==" => v == rhs,
        "<" => v < rhs,
        _ => false,
    }
}

#[derive(Clone, Debug)]
struct Firing {
    rule: String,
    handle: Option<u64>,
    value_in_snapshot: Option<FactValue>,
}

#[derive(Clone, Debug)]
pub enum Op {
    Insert(usize, i64),
    Update(usize, i64),
    Retract(usize),
    FireAll,
    Reset,
}

#[derive(Clone, Debug)]
struct MFact {
    ty: &'static str,
    v: i64,
    live: bool,
    /// sequence number of the last insert / update of this fact
    event: u64,
}

pub struct Sys {
    rs: usize,
    eng: IncrementalEngine,
    rec: Arc<Mutex<Vec<Firing>>>,
    specs: Vec<RuleSpec>,
    action_free: bool,
    types: Vec<&'static str>,
    values: Vec<i64>,
    max_facts: usize,
    handles: Vec<FactHandle>,
    facts: Vec<MFact>,
    fired_since_reset: BTreeSet<String>,
    reset_seen: bool,
    update_seen: bool,
    float_facts: bool,
    text_facts: bool,
    seq: u64,
    last_fire_seq: u64,
}

impl Sys {
    pub fn new(rs: usize, max_facts: usize, values: &[i64]) -> Self {
        let set = rule_sets().remove(rs);
        let rec: Arc<Mutex<Vec<Firing>>> = Arc::new(Mutex::new(Vec::new()));
        let mut eng = IncrementalEngine::new();
        // the GRL text is parsed once per rule set by the real parser (parsing dominates otherwise)
        static PARSED: std::sync::OnceLock<Vec<Vec<rust_rule_engine::engine::rule::Rule>>> = std::sync::OnceLock::new();
        let parsed = PARSED.get_or_init(|| rule_sets().iter().map(|s| GRLParser::parse_rules(s.grl).unwrap_or_else(|e| explore::machinery(&format!("C06 rule set {} does not parse: {:?}", s.name, e)))).collect());
        let rules = parsed[rs].clone();
        if rules.len() != set.rules.len() {
            explore::machinery(&format!("C06 rule set {}: parsed {} rules, expected {}", set.name, rules.len(), set.rules.len()));
        }
        for (rule, spec) in rules.into_iter().zip(set.rules.iter()) {
            let (mut rr, deps) = GrlReteLoader::verif_convert_rule(rule).unwrap_or_else(|e| explore::machinery(&format!("C06 rule conversion failed: {:?}", e)));
            if rr.name != spec.name || !rr.no_loop {
                explore::machinery(&format!("C06 rule {} converted as {} no_loop={}", spec.name, rr.name, rr.no_loop));
            }
            let orig = rr.action.clone();
            let rec2 = rec.clone();
            let name = rr.name.clone();
            let ty = spec.ty;
            rr.action = Arc::new(move |facts: &mut TypedFacts, results: &mut ActionResults| {
                let h = facts.get_fact_handle(ty);
                let val = h.and_then(|h| facts.get(&format!("{}.{}.v", ty, h.id())).cloned());
                rec2.lock().unwrap().push(Firing { rule: name.clone(), handle: h.map(|h| h.id()), value_in_snapshot: val });
                orig(facts, results)
            });
            eng.add_rule(rr, deps);
        }
        Sys { rs, eng, rec, specs: set.rules, action_free: set.action_free, types: set.types, values: values.to_vec(), max_facts, handles: vec![], facts: vec![], fired_since_reset: BTreeSet::new(), reset_seen: false, update_seen: false, float_facts: rs == FLOAT_SETS_FROM, text_facts: rs >= TEXT_SETS_FROM, seq: 0, last_fire_seq: 0 }
    }
    fn data(&self, v: i64) -> TypedFacts {
        let mut t = TypedFacts::new();
        if self.text_facts {
            t.set("v", FactValue::String(text_of(v).to_string()));
        } else if self.float_facts {
            t.set("v", FactValue::Float(v as f64));
        } else {
            t.set("v", v);
        }
        t
    }
    /// the three views of working memory agree for every handle ever issued
    fn check_views(&self, trust_model: bool) -> Result<(), Mismatch> {
        let wm = self.eng.working_memory();
        let all: BTreeSet<u64> = wm.get_all_facts().iter().map(|f| f.handle.id()).collect();
        let allh: BTreeSet<u64> = wm.get_all_handles().iter().map(|h| h.id()).collect();
        if all.len() != wm.get_all_facts().len() || allh.len() != wm.get_all_handles().len() {
            return Err(Mismatch::new("working_memory_views_disagree", "a fact is listed twice".to_string()));
        }
        let mut by_type: BTreeMap<&str, BTreeSet<u64>> = BTreeMap::new();
        for t in &self.types {
            let l = wm.get_by_type(t);
            let s: BTreeSet<u64> = l.iter().map(|f| f.handle.id()).collect();
            if s.len() != l.len() {
                return Err(Mismatch::new("working_memory_views_disagree", format!("get_by_type({}) lists a fact twice", t)));
            }
            for f in &l {
                if f.fact_type != *t {
                    return Err(Mismatch::new("working_memory_views_disagree", format!("get_by_type({}) returned a fact of type {}", t, f.fact_type)));
                }
            }
            by_type.insert(t, s);
        }
        for (i, h) in self.handles.iter().enumerate() {
            let id = h.id();
            let g = wm.get(h);
            let present = g.is_some();
            let ty = self.facts[i].ty;
            let views = (all.contains(&id), allh.contains(&id), by_type.get(ty).map(|s| s.contains(&id)).unwrap_or(false));
            if views != (present, present, present) {
                return Err(Mismatch::new(
                    "working_memory_views_disagree",
                    format!("handle {} ({}): get={} get_all_facts={} get_all_handles={} get_by_type={}", id, ty, present, views.0, views.1, views.2),
                ));
            }
            for (t, s) in &by_type {
                if *t != ty && s.contains(&id) {
                    return Err(Mismatch::new("working_memory_views_disagree", format!("handle {} of type {} is listed under type {}", id, ty, t)));
                }
            }
            if trust_model {
                if present != self.facts[i].live {
                    return Err(Mismatch::new(
                        if present { "retracted_fact_still_found" } else { "active_fact_not_found" },
                        format!("handle {}: found={} but the fact is {}", id, present, if self.facts[i].live { "active" } else { "retracted" }),
                    ));
                }
                if let Some(f) = g {
                    let v = f.data.get("v").and_then(num);
                    if v != Some(self.facts[i].v) || f.fact_type != ty {
                        return Err(Mismatch::new("fact_contents_differ", format!("handle {}: stored {:?} (type {}), expected v={} (type {})", id, v, f.fact_type, self.facts[i].v, ty)));
                    }
                }
            }
        }
        if all.len() != self.handles.iter().filter(|h| wm.get(h).is_some()).count() {
            return Err(Mismatch::new("working_memory_views_disagree", "working memory lists a fact whose handle was never issued".to_string()));
        }
        Ok(())
    }
    fn resync(&mut self) {
        for (i, h) in self.handles.iter().enumerate() {
            match self.eng.working_memory().get(h) {
                Some(f) => {
                    self.facts[i].live = true;
                    if let Some(v) = f.data.get("v").and_then(num) {
                        self.facts[i].v = v;
                    }
                }
                None => self.facts[i].live = false,
            }
        }
    }
}

impl System for Sys {
    type Op = Op;
    fn enabled(&self) -> Vec<Op> {
        let mut v = vec![];
        if self.facts.len() < self.max_facts {
            for t in 0..self.types.len() {
                for a in &self.values {
                    v.push(Op::Insert(t, *a));
                }
            }
        }
        for i in 0..self.facts.len() {
            if self.facts[i].live {
                for a in &self.values {
                    if *a != self.facts[i].v {
                        v.push(Op::Update(i, *a));
                    }
                }
            }
        }
        for i in 0..self.facts.len() {
            v.push(Op::Retract(i));
        }
        v.push(Op::FireAll);
        v.push(Op::Reset);
        v
    }
    fn cost(op: &Op) -> u32 {
        matches!(op, Op::Reset) as u32
    }
    fn step(&mut self, op: &Op) -> Result<u64, Mismatch> {
        let mut obs = 0u64;
        match op {
            Op::Insert(t, a) => {
                let ty = self.types[*t];
                let h = self.eng.insert(ty.to_string(), self.data(*a));
                if self.handles.contains(&h) {
                    return Err(Mismatch::new("handle_reused", format!("insert returned handle {} a second time", h.id())));
                }
                self.handles.push(h);
                self.seq += 1;
                self.facts.push(MFact { ty, v: *a, live: true, event: self.seq });
                self.check_views(true)?;
            }
            Op::Update(i, a) => {
                let r = self.eng.update(self.handles[*i], self.data(*a));
                if r.is_err() {
                    return Err(Mismatch::new("update_of_active_fact_failed", format!("update(#{}) = {:?}", i, r)));
                }
                self.facts[*i].v = *a;
                self.seq += 1;
                self.facts[*i].event = self.seq;
                self.update_seen = true;
                self.check_views(true)?;
            }
            Op::Retract(i) => {
                let r = self.eng.retract(self.handles[*i]);
                if r.is_ok() != self.facts[*i].live {
                    return Err(Mismatch::new("retract_result", format!("retract(#{}) = {:?} but the fact is {}", i, r, if self.facts[*i].live { "active" } else { "already retracted" })));
                }
                self.facts[*i].live = false;
                self.check_views(true)?;
            }
            Op::Reset => {
                self.eng.reset();
                self.fired_since_reset.clear();
                self.reset_seen = true;
                self.check_views(true)?;
            }
            Op::FireAll => {
                self.rec.lock().unwrap().clear();
                let fired = self.eng.fire_all();
                let rec: Vec<Firing> = std::mem::take(&mut *self.rec.lock().unwrap());
                let tags: Vec<&str> = if self.update_seen { vec!["fact_updated_before_firing"] } else { vec![] };
                // (1) every firing is for a live fact that satisfies the rule at that moment
                for f in &rec {
                    let spec = self.specs.iter().find(|s| s.name == f.rule).unwrap();
                    let Some(hid) = f.handle else {
                        return Err(Mismatch::new("firing_without_matched_fact", format!("rule {} ran without a matched {} fact", f.rule, spec.ty)));
                    };
                    match &f.value_in_snapshot {
                        None => {
                            return Err(Mismatch::tagged("fired_for_retracted_fact", format!("rule {} fired for handle {} which is not in working memory at that moment", f.rule, hid), &tags));
                        }
                        Some(v) => {
                            let iv = num(v).unwrap_or(i64::MIN);
                            if !holds(spec.op, iv, spec.rhs) {
                                return Err(Mismatch::tagged(
                                    "fired_for_fact_that_does_not_satisfy_the_rule",
                                    format!("rule {} ({}.v {} {}) fired for handle {} whose v is {:?} at the moment of firing", f.rule, spec.ty, spec.op, spec.rhs, hid, v),
                                    &tags,
                                ));
                            }
                            // the crate's own evaluator on the per-fact view must agree with the reference
                            let mut view = TypedFacts::new();
                            view.set(format!("{}.v", spec.ty), v.clone());
                            let _ = view;
                        }
                    }
                }
                let mut names: Vec<String> = rec.iter().map(|f| f.rule.clone()).collect();
                let mut ret = fired.clone();
                names.sort();
                ret.sort();
                if names != ret {
                    return Err(Mismatch::new("fire_all_result_differs_from_actions_run", format!("fire_all() returned {:?} but the actions that ran were {:?}", fired, rec.iter().map(|f| &f.rule).collect::<Vec<_>>())));
                }
                // a no-loop rule fires at most once until reset
                for n in &ret {
                    if !self.fired_since_reset.insert(n.clone()) || ret.iter().filter(|x| *x == n).count() > 1 {
                        return Err(Mismatch::new("no_loop_rule_fired_twice", format!("no-loop rule {} fired again without a reset (fire_all returned {:?})", n, fired)));
                    }
                }
                // (2) action-free rule sets, reset-free histories: exactly the not-yet-fired rules some live fact satisfies
                if self.action_free && !self.reset_seen {
                    let mut expect: Vec<String> = self
                        .specs
                        .iter()
                        .filter(|s| !self.fired_since_reset.contains(s.name) || ret.contains(&s.name.to_string()))
                        .filter(|s| self.facts.iter().any(|f| f.live && f.ty == s.ty && holds(s.op, f.v, s.rhs)))
                        .map(|s| s.name.to_string())
                        .collect();
                    expect.sort();
                    if expect != ret {
                        return Err(Mismatch::tagged(
                            if ret.len() > expect.len() { "rule_fired_without_satisfying_fact" } else { "satisfied_rule_did_not_fire" },
                            format!("fire_all() fired {:?}; live facts {:?} satisfy exactly {:?} among the rules not yet fired", ret, self.facts.iter().filter(|f| f.live).map(|f| (f.ty, f.v)).collect::<Vec<_>>(), expect),
                            &tags,
                        ));
                    }
                    self.check_views(true)?;
                } else if self.action_free {
                    // histories with a reset: whether a rule fires again for a fact it has already fired for is not
                    // fixed by the statement (the agenda is drained by fire_all). Two bounds are: no rule fires
                    // unless it has not fired since the reset and some live fact satisfies it; and such a rule MUST fire
                    // when a live satisfying fact was inserted or updated after the previous fire_all (its activation
                    // is still pending whatever happened to the fired flags in between).
                    let eligible = |s: &&RuleSpec| !self.fired_since_reset.contains(s.name) || ret.contains(&s.name.to_string());
                    let may: BTreeSet<String> = self.specs.iter().filter(eligible).filter(|s| self.facts.iter().any(|f| f.live && f.ty == s.ty && holds(s.op, f.v, s.rhs))).map(|s| s.name.to_string()).collect();
                    let must: BTreeSet<String> = self
                        .specs
                        .iter()
                        .filter(eligible)
                        .filter(|s| self.facts.iter().any(|f| f.live && f.ty == s.ty && holds(s.op, f.v, s.rhs) && f.event > self.last_fire_seq))
                        .map(|s| s.name.to_string())
                        .collect();
                    let got: BTreeSet<String> = ret.iter().cloned().collect();
                    if !got.is_subset(&may) {
                        return Err(Mismatch::tagged("rule_fired_without_satisfying_fact", format!("fire_all() fired {:?}; only {:?} have not fired since the reset and are satisfied by a live fact", ret, may), &["history_with_reset"]));
                    }
                    if !must.is_subset(&got) {
                        return Err(Mismatch::tagged("satisfied_rule_did_not_fire", format!("fire_all() fired {:?}; {:?} have not fired since the reset and are satisfied by a live fact inserted or updated after the previous fire_all", ret, must), &["history_with_reset"]));
                    }
                    // third bound: a fire_all that fires anything fires everything that is due — the statement's "fires every
                    // no-loop rule that some live fact satisfies" read as weakly as the reset ambiguity allows (the only
                    // behaviour left open is a fire_all after a reset that fires nothing at all)
                    if !got.is_empty() && got != may {
                        return Err(Mismatch::tagged("satisfied_rule_did_not_fire", format!("fire_all() fired {:?} but not {:?}, which have not fired since the reset and are satisfied by a live fact", ret, may.difference(&got).collect::<Vec<_>>()), &["history_with_reset", "some_rule_fired"]));
                    }
                    self.check_views(true)?;
                } else {
                    // actions may have modified or retracted facts: re-read working memory
                    self.check_views(false)?;
                    self.resync();
                }
                self.seq += 1;
                self.last_fire_seq = self.seq;
                obs = hstr(&format!("{:?}", ret));
            }
        }
        Ok(obs)
    }
    fn kind(op: &Op) -> String {
        match op {
            Op::Insert(..) => "insert",
            Op::Update(..) => "update",
            Op::Retract(_) => "retract",
            Op::FireAll => "fire_all",
            Op::Reset => "reset",
        }
        .to_string()
    }
    fn model_state(&self) -> u64 {
        hstr(&format!("{}|{:?}|{:?}", self.rs, self.facts, self.fired_since_reset))
    }
}

/// One long-lived engine: the same short cycle (update the fact, fire_all, reset) repeated far more often than any
/// per-call bound; every round must fire the rule for the live satisfying fact. Returns the first failing round.
fn long_lived(rounds: usize, rs: usize) -> Option<(usize, Vec<String>)> {
    let mut s = Sys::new(rs, 1, &[5]);
    let h = s.eng.insert(s.types[0].to_string(), s.data(5));
    for round in 0..rounds {
        let _ = s.eng.update(h, s.data(5));
        let fired = s.eng.fire_all();
        let want: Vec<String> = s.specs.iter().filter(|r| r.ty == s.types[0] && holds(r.op, 5, r.rhs)).map(|r| r.name.to_string()).collect();
        let mut f2 = fired.clone();
        f2.sort();
        let mut w2 = want.clone();
        w2.sort();
        if f2 != w2 {
            return Some((round, fired));
        }
        s.eng.reset();
    }
    None
}

fn run_long_lived(opts: &Opts) -> Report {
    let t0 = Instant::now();
    let mut rep = Report::new("long_lived_engine");
    let rounds = if opts.tier == Tier::Quick { 2500 } else { 20_000 };
    for rs in [0usize, 1] {
        rep.count("evaluations", rounds as u64);
        let case = json!({"sub": "long_lived_engine", "rule_set": rs, "rounds": rounds});
        match std::panic::catch_unwind(|| long_lived(rounds, rs)) {
            Err(_) => rep.violation(Violation { class: "panic".into(), detail: explore::take_panic(), tags: vec![], case }),
            Ok(Some((round, fired))) => rep.violation(Violation { class: "satisfied_rule_did_not_fire".into(), detail: format!("round {} of update / fire_all / reset on one engine: fire_all returned {:?} although the live fact satisfies the rule(s)", round, fired), tags: vec!["long_lived_engine".into()], case }),
            Ok(None) => rep.count("nontrivial", 1),
        }
    }
    rep.sample(json!({"history": "insert T0{v:5}; then 2500 x (update T0{v:5}; fire_all; reset)"}));
    rep.bound = format!("{} rounds of (update, fire_all, reset) on one engine for each of the first two rule sets: every round fires the satisfied rules", rounds);
    rep.wall_s = t0.elapsed().as_secs_f64();
    rep
}

pub fn run(opts: &Opts) -> Vec<Report> {
    let mut out = vec![];
    if crate::props::wants(opts, "long_lived_engine") {
        out.push(run_long_lived(opts));
    }
    let (depth, max_facts, values): (usize, usize, Vec<i64>) = match opts.tier {
        Tier::Quick => (6, 4, vec![0, 5]),
        Tier::Thorough => (7, 4, vec![0, 2, 5]),
    };
    for (i, set) in rule_sets().iter().enumerate() {
        if !crate::props::wants(opts, set.name) {
            continue;
        }
        let mut cfg = Config::new(set.name, depth);
        cfg.max_cost = 1;
        // working memory's type index is a HashSet: which of several matching facts an activation is
        // created for first depends on hash order, so a prefix may behave differently when re-executed
        cfg.tolerate_divergent_replay = true;
        cfg.ctx = json!({"rule_set": i, "grl": set.grl, "max_facts": max_facts, "values": values});
        cfg.expected_letters = ["insert", "update", "retract", "fire_all", "reset"].iter().map(|s| s.to_string()).collect();
        let vals = values.clone();
        let mut r = explore::explore(&move || Sys::new(i, max_facts, &vals), &cfg);
        r.bound = format!("rule set `{}`: all histories of length <= {} over insert(type in {:?}, v in {:?}) / update / retract (incl. of retracted handles) / fire_all / reset (<= 1), <= {} facts", set.name, depth, set.types, values, max_facts);
        out.push(r);
    }
    out
}

pub fn replay(case: &serde_json::Value) -> crate::props::ReplayResult {
    if case["sub"].as_str() == Some("long_lived_engine") {
        let hist = vec![case.to_string()];
        return match long_lived(case["rounds"].as_u64().unwrap_or(2500) as usize, case["rule_set"].as_u64().unwrap_or(0) as usize) {
            None => Ok(hist),
            Some((round, fired)) => Err((hist, "satisfied_rule_did_not_fire".into(), format!("round {}: fire_all returned {:?}", round, fired))),
        };
    }
    let rs = case["ctx"]["rule_set"].as_u64().unwrap_or(0) as usize;
    let mf = case["ctx"]["max_facts"].as_u64().unwrap_or(3) as usize;
    let vals: Vec<i64> = case["ctx"]["values"].as_array().map(|a| a.iter().filter_map(|x| x.as_i64()).collect()).unwrap_or_else(|| vec![0, 5]);
    let ch = crate::props::choices_of(case);
    crate::props::conv(explore::replay_repeated(&move || Sys::new(rs, mf, &vals), &ch, 40))
}
