//! C17 — cached proofs are valid exactly while a justification survives.
//! Real `ProofGraph` against a justification model, every history of insert_proof / invalidate_handle.
use crate::explore::{self, Config, Mismatch, System};
use crate::report::{hstr, Report};
use crate::{Opts, Tier};
use rust_rule_engine::backward::proof_graph::{FactKey, ProofGraph};
use rust_rule_engine::rete::FactHandle;
use serde_json::json;

#[derive(Clone, Debug)]
pub enum Op {
    Insert(usize, Vec<usize>),
    Invalidate(usize),
}

#[derive(Clone, Debug, Default)]
struct MNode {
    exists: bool,
    valid: bool,
    justs: Vec<(Vec<usize>, bool)>,
}

pub struct Sys {
    g: ProofGraph,
    n: usize,
    pair_premises: bool,
    max_justs: usize,
    nodes: Vec<MNode>,
    directly_invalidated: Vec<bool>,
    dependent_before_premise: bool,
}

fn handle(i: usize) -> FactHandle {
    FactHandle::new(100 + i as u64)
}

/// handles n-2 and n-1 share one key (two cached proofs of the same fact)
fn key_index(n: usize, i: usize) -> usize {
    if i == n - 1 {
        n - 2
    } else {
        i
    }
}
fn key(n: usize, i: usize) -> FactKey {
    FactKey::from_pattern(&format!("F.k{} == true", key_index(n, i)))
}

impl Sys {
    pub fn new(n: usize, pair_premises: bool, max_justs: usize) -> Self {
        Sys { g: ProofGraph::new(), n, pair_premises, max_justs, nodes: vec![MNode::default(); n], directly_invalidated: vec![false; n], dependent_before_premise: false }
    }
    /// may be named as a premise: never invalidated directly and not a cached proof that is currently invalid
    fn usable_premise(&self, i: usize) -> bool {
        !self.directly_invalidated[i] && (!self.nodes[i].exists || self.nodes[i].valid)
    }
    fn check(&mut self, op: &Op) -> Result<(), Mismatch> {
        let tags: Vec<&str> = if self.dependent_before_premise { vec!["dependent_inserted_before_premise_node"] } else { vec![] };
        for i in 0..self.n {
            let m = &self.nodes[i];
            let real = self.g.get_node(&handle(i));
            match (m.exists, real) {
                (false, None) => {}
                (true, Some(r)) => {
                    if r.valid != m.valid {
                        return Err(Mismatch::tagged(
                            if r.valid { "stale_proof_reported_valid" } else { "supported_proof_reported_invalid" },
                            format!("after {:?}: node #{} valid={} but model says {} (justifications alive: {:?})", op, i, r.valid, m.valid, m.justs),
                            &tags,
                        ));
                    }
                }
                (e, r) => return Err(Mismatch::new("node_existence", format!("node #{} exists in model: {}, in graph: {}", i, e, r.is_some()))),
            }
        }
        for k in 0..self.n - 1 {
            let exp = (0..self.n).any(|i| key_index(self.n, i) == k && self.nodes[i].exists && self.nodes[i].valid);
            let kk = FactKey::from_pattern(&format!("F.k{} == true", k));
            let got = self.g.is_proven(&kk);
            if got != exp {
                return Err(Mismatch::tagged(if got { "stale_proof_reported_valid" } else { "supported_proof_reported_invalid" }, format!("after {:?}: is_proven(k{}) = {}, model {}", op, k, got, exp), &tags));
            }
            let looked: Option<Vec<u64>> = self.g.lookup_by_key(&kk).map(|v| {
                let mut hs: Vec<u64> = v.iter().filter_map(|n| n.handle.map(|h| h.id())).collect();
                hs.sort();
                hs.dedup();
                hs
            });
            let mut exp_h: Vec<u64> = (0..self.n).filter(|&i| key_index(self.n, i) == k && self.nodes[i].exists && self.nodes[i].valid).map(|i| handle(i).id()).collect();
            exp_h.sort();
            if looked.clone().unwrap_or_default() != exp_h {
                return Err(Mismatch::tagged("lookup_differs", format!("after {:?}: lookup_by_key(k{}) -> {:?}, expected {:?}", op, k, looked, exp_h), &tags));
            }
        }
        Ok(())
    }
}

impl System for Sys {
    type Op = Op;
    fn enabled(&self) -> Vec<Op> {
        let mut v = vec![];
        for h in 0..self.n {
            if self.nodes[h].justs.len() >= self.max_justs {
                continue;
            }
            let others: Vec<usize> = (0..self.n).filter(|&i| i != h && self.usable_premise(i)).collect();
            v.push(Op::Insert(h, vec![]));
            for &a in &others {
                v.push(Op::Insert(h, vec![a]));
            }
            if self.pair_premises {
                for x in 0..others.len() {
                    for y in x + 1..others.len() {
                        v.push(Op::Insert(h, vec![others[x], others[y]]));
                    }
                }
            }
        }
        for h in 0..self.n {
            v.push(Op::Invalidate(h));
        }
        v
    }
    fn step(&mut self, op: &Op) -> Result<u64, Mismatch> {
        match op {
            Op::Insert(h, p) => {
                if p.iter().any(|&q| !self.nodes[q].exists) {
                    self.dependent_before_premise = true;
                }
                let ph: Vec<FactHandle> = p.iter().map(|&i| handle(i)).collect();
                let pk: Vec<String> = p.iter().map(|&i| format!("F.k{} == true", key_index(self.n, i))).collect();
                self.g.insert_proof(handle(*h), key(self.n, *h), format!("r{}", h), ph, pk);
                let m = &mut self.nodes[*h];
                m.exists = true;
                m.valid = true;
                m.justs.push((p.clone(), true));
                self.directly_invalidated[*h] = false;
            }
            Op::Invalidate(h) => {
                self.g.invalidate_handle(&handle(*h));
                self.directly_invalidated[*h] = true;
                if self.nodes[*h].exists {
                    self.nodes[*h].valid = false;
                }
                let mut work = vec![*h];
                while let Some(d) = work.pop() {
                    for i in 0..self.n {
                        let mut killed = false;
                        for j in self.nodes[i].justs.iter_mut() {
                            if j.1 && j.0.contains(&d) {
                                j.1 = false;
                                killed = true;
                            }
                        }
                        if killed && !self.nodes[i].justs.iter().any(|j| j.1) && self.nodes[i].valid {
                            self.nodes[i].valid = false;
                            work.push(i);
                        } else if killed && !self.nodes[i].justs.iter().any(|j| j.1) {
                            // already invalid (directly invalidated earlier); its dependents lost
                            // their justifications then — nothing further
                        }
                    }
                }
            }
        }
        self.check(op)?;
        Ok(self.model_state())
    }
    fn kind(op: &Op) -> String {
        match op {
            Op::Insert(_, p) => format!("insert_proof_{}premises", p.len()),
            Op::Invalidate(_) => "invalidate_handle".to_string(),
        }
    }
    fn model_state(&self) -> u64 {
        hstr(&format!("{:?}{:?}", self.nodes, self.directly_invalidated))
    }
    fn fingerprint(&self) -> Option<u64> {
        // real side: every pub field the code can later read; the private reverse index is a monotone
        // function of the edges ever inserted, which the model state (dead justifications included) fixes
        let mut s = format!("{:?}{:?}", self.nodes, self.directly_invalidated);
        for i in 0..self.n {
            if let Some(r) = self.g.get_node(&handle(i)) {
                let mut deps: Vec<u64> = r.dependents.iter().map(|h| h.id()).collect();
                deps.sort();
                let js: Vec<Vec<u64>> = r.justifications.iter().map(|j| j.premises.iter().map(|h| h.id()).collect()).collect();
                s.push_str(&format!("|{}:{}:{:?}:{:?}", i, r.valid, deps, js));
            }
        }
        Some(hstr(&s))
    }
}

pub fn run(opts: &Opts) -> Vec<Report> {
    let plan: Vec<(&str, usize, bool, usize, usize)> = match opts.tier {
        Tier::Quick => vec![("proofs_4h_pairs_len4", 4, true, 2, 4), ("proofs_4h_single_len5", 4, false, 2, 5), ("proofs_3h_len6", 3, true, 3, 6)],
        Tier::Thorough => vec![("proofs_5h_pairs_len5", 5, true, 2, 5), ("proofs_4h_pairs_len6", 4, true, 2, 6), ("proofs_4h_single_len8", 4, false, 2, 8), ("proofs_3h_len9", 3, true, 3, 9)],
    };
    let mut out = vec![];
    for (name, n, pairs, mj, depth) in plan {
        if !crate::props::wants(opts, name) {
            continue;
        }
        let mut cfg = Config::new(name, depth);
        cfg.dedup = true;
        cfg.ctx = json!({"handles": n, "pair_premises": pairs, "max_justifications": mj});
        cfg.expected_letters = vec!["insert_proof_0premises".into(), "insert_proof_1premises".into(), "invalidate_handle".into()];
        let mut r = explore::explore(&move || Sys::new(n, pairs, mj), &cfg);
        r.bound = format!("all histories of length <= {} over insert_proof(h, premises subset, |P| <= {}) / invalidate_handle(h) on {} handles (two of them share a key), <= {} justifications per handle; de-duplicated on exact (state, remaining depth)", depth, if pairs { 2 } else { 1 }, n, mj);
        r.assumptions.push("a handle that was invalidated directly, or a cached proof that is currently invalid, is not offered as a premise".into());
        out.push(r);
    }
    out
}

pub fn replay(case: &serde_json::Value) -> crate::props::ReplayResult {
    let n = case["ctx"]["handles"].as_u64().unwrap_or(4) as usize;
    let pairs = case["ctx"]["pair_premises"].as_bool().unwrap_or(true);
    let mj = case["ctx"]["max_justifications"].as_u64().unwrap_or(2) as usize;
    let ch = crate::props::choices_of(case);
    crate::props::conv(explore::replay(&move || Sys::new(n, pairs, mj), &ch))
}
