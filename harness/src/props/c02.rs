//! C02 — firing order and rule attributes; C03 — execute returns within max_cycles at a fixpoint or at
//! the bound; C01 family 4 (data flow between rules). All three share `ref_forward`, a small
//! interpreter of the documented pass loop.
use crate::explore::{self, Config, Mismatch, System};
use crate::report::{hstr, Report, Violation};
use crate::{Opts, Tier};
use chrono::{DateTime, Duration, TimeZone, Utc};
use rust_rule_engine::engine::engine::{EngineConfig, RustRuleEngine};
use rust_rule_engine::engine::facts::Facts;
use rust_rule_engine::engine::knowledge_base::KnowledgeBase;
use rust_rule_engine::engine::rule::{Condition, ConditionGroup, Rule};
use rust_rule_engine::parser::grl::GRLParser;
use rust_rule_engine::types::{ActionType, Operator, Value};
use serde_json::json;
use std::collections::{BTreeMap, BTreeSet};
use std::sync::atomic::{AtomicUsize, Ordering};
use std::time::Instant;

pub fn t_eval() -> DateTime<Utc> {
    Utc.with_ymd_and_hms(2025, 6, 15, 0, 0, 0).unwrap()
}

#[derive(Clone, Copy, Debug, PartialEq, Eq, PartialOrd, Ord)]
pub enum DateWin {
    None,
    NotYet,     // effective in 10 days
    Active,     // effective 10 days ago, expires in 10 days
    Expired,    // expired 10 days ago
    EffectiveNow, // effective exactly at the evaluation instant (inclusive/exclusive is not stated)
    ExpiresNow,
}

#[derive(Clone, Copy, Debug, PartialEq, Eq, PartialOrd, Ord)]
pub enum CondK {
    True,                    // v9 == 0 (never written)
    VarEq(usize, i64),       // v<k> == c
    VarLt(usize, i64),       // v<k> < c
}

#[derive(Clone, Copy, Debug, PartialEq, Eq, PartialOrd, Ord)]
pub enum ActK {
    Nothing,
    SetVar(usize, i64),
    IncVar(usize),
    Activate(&'static str),
    /// v<k> = v<k> * 2 (leaves the i64 range after 63 firings from 1)
    DoubleVar(usize),
    /// v<k> = v<k> - 1
    DecVar(usize),
    /// v<a> = 7 % v<b> (the divisor may have been counted down to zero)
    ModBy(usize, usize),
    /// an action that returns an error when it runs (its right-hand side names a fact that does not exist)
    Fail,
    /// the rule has no actions at all (not even the recording append): `then ;`
    Silent,
}

#[derive(Clone, Debug, PartialEq, Eq, PartialOrd, Ord)]
pub struct RSpec {
    pub name: String,
    pub salience: i32,
    pub enabled: bool,
    pub no_loop: bool,
    pub loa: bool,
    pub agenda: Option<&'static str>,
    pub actgrp: Option<&'static str>,
    pub date: DateWin,
    pub cond: CondK,
    pub act: ActK,
    pub act2: ActK,
}

impl RSpec {
    pub fn plain(name: &str) -> Self {
        RSpec { name: name.to_string(), salience: 0, enabled: true, no_loop: false, loa: false, agenda: None, actgrp: None, date: DateWin::None, cond: CondK::True, act: ActK::Nothing, act2: ActK::Nothing }
    }
    fn window(&self) -> (Option<DateTime<Utc>>, Option<DateTime<Utc>>) {
        let t = t_eval();
        let d = Duration::days(10);
        match self.date {
            DateWin::None => (None, None),
            DateWin::NotYet => (Some(t + d), None),
            DateWin::Active => (Some(t - d), Some(t + d)),
            DateWin::Expired => (None, Some(t - d)),
            DateWin::EffectiveNow => (Some(t), None),
            DateWin::ExpiresNow => (None, Some(t)),
        }
    }
    /// Some(active) or None when the instant is exactly a bound (not fixed by the statement)
    pub fn active_at(&self, t: DateTime<Utc>) -> Option<bool> {
        let (eff, exp) = self.window();
        if eff == Some(t) || exp == Some(t) {
            return None;
        }
        Some(eff.map(|e| t > e).unwrap_or(true) && exp.map(|e| t < e).unwrap_or(true))
    }
    pub fn build(&self) -> Rule {
        let cond = match self.cond {
            CondK::True => Condition::new("v9".to_string(), Operator::Equal, Value::Integer(0)),
            CondK::VarEq(k, c) => Condition::new(format!("v{}", k), Operator::Equal, Value::Integer(c)),
            CondK::VarLt(k, c) => Condition::new(format!("v{}", k), Operator::LessThan, Value::Integer(c)),
        };
        let mut actions = vec![ActionType::Append { field: "seq".to_string(), value: Value::String(self.name.clone()) }];
        if self.act == ActK::Silent {
            actions.clear();
        }
        for a in [self.act, self.act2] {
            match a {
                ActK::Nothing | ActK::Silent => {}
                ActK::Fail => actions.push(ActionType::Set { field: "Total".to_string(), value: Value::Expression("NoSuchFact + 1".to_string()) }),
                ActK::DoubleVar(k) => actions.push(ActionType::Set { field: format!("v{}", k), value: Value::Expression(format!("v{} * 2", k)) }),
                ActK::DecVar(k) => actions.push(ActionType::Set { field: format!("v{}", k), value: Value::Expression(format!("v{} - 1", k)) }),
                ActK::ModBy(a, b) => actions.push(ActionType::Set { field: format!("v{}", a), value: Value::Expression(format!("7 % v{}", b)) }),
                ActK::SetVar(k, c) => actions.push(ActionType::Set { field: format!("v{}", k), value: Value::Integer(c) }),
                ActK::IncVar(k) => actions.push(ActionType::Set { field: format!("v{}", k), value: Value::Expression(format!("v{} + 1", k)) }),
                ActK::Activate(g) => actions.push(ActionType::ActivateAgendaGroup { group: g.to_string() }),
            }
        }
        let mut r = Rule::new(self.name.clone(), ConditionGroup::single(cond), actions).with_salience(self.salience).with_no_loop(self.no_loop).with_lock_on_active(self.loa);
        r.enabled = self.enabled;
        if let Some(g) = self.agenda {
            r = r.with_agenda_group(g.to_string());
        }
        if let Some(g) = self.actgrp {
            r = r.with_activation_group(g.to_string());
        }
        let (eff, exp) = self.window();
        if let Some(e) = eff {
            r = r.with_date_effective(e);
        }
        if let Some(e) = exp {
            r = r.with_date_expires(e);
        }
        r
    }
    /// the same rule as GRL text (None when it uses something GRL cannot say: a disabled rule)
    pub fn grl(&self) -> Option<String> {
        if !self.enabled {
            return None;
        }
        let mut h = format!("rule \"{}\"", self.name);
        if self.salience != 0 {
            h.push_str(&format!(" salience {}", self.salience));
        }
        if self.no_loop {
            h.push_str(" no-loop");
        }
        if self.loa {
            h.push_str(" lock-on-active");
        }
        if let Some(g) = self.agenda {
            h.push_str(&format!(" agenda-group \"{}\"", g));
        }
        if let Some(g) = self.actgrp {
            h.push_str(&format!(" activation-group \"{}\"", g));
        }
        let (eff, exp) = self.window();
        if let Some(e) = eff {
            h.push_str(&format!(" date-effective \"{}\"", e.to_rfc3339()));
        }
        if let Some(e) = exp {
            h.push_str(&format!(" date-expires \"{}\"", e.to_rfc3339()));
        }
        let cond = match self.cond {
            CondK::True => "v9 == 0".to_string(),
            CondK::VarEq(k, c) => format!("v{} == {}", k, c),
            CondK::VarLt(k, c) => format!("v{} < {}", k, c),
        };
        let mut acts = format!("seq += \"{}\";", self.name);
        if self.act == ActK::Silent {
            acts = ";".to_string();
        }
        for a in [self.act, self.act2] {
            match a {
                ActK::Nothing | ActK::Silent => {}
                ActK::Fail => acts.push_str(" Total = NoSuchFact + 1;"),
                ActK::DoubleVar(k) => acts.push_str(&format!(" v{} = v{} * 2;", k, k)),
                ActK::DecVar(k) => acts.push_str(&format!(" v{} = v{} - 1;", k, k)),
                ActK::ModBy(a, b) => acts.push_str(&format!(" v{} = 7 % v{};", a, b)),
                ActK::SetVar(k, c) => acts.push_str(&format!(" v{} = {};", k, c)),
                ActK::IncVar(k) => acts.push_str(&format!(" v{} = v{} + 1;", k, k)),
                ActK::Activate(g) => acts.push_str(&format!(" ActivateAgendaGroup(\"{}\");", g)),
            }
        }
        Some(format!("{} {{ when {} then {} }}", h, cond, acts))
    }
}

#[derive(Clone, Debug, Default)]
pub struct Vars {
    pub v: BTreeMap<usize, i64>,
}

impl Vars {
    fn get(&self, k: usize) -> i64 {
        self.v.get(&k).copied().unwrap_or(0)
    }
}

pub fn mk_facts() -> Facts {
    let f = Facts::new();
    for k in [0usize, 1, 2, 9] {
        f.set(&format!("v{}", k), Value::Integer(0));
    }
    f
}

fn read_vars(f: &Facts) -> Vars {
    let mut v = Vars::default();
    for k in [0usize, 1, 2] {
        if let Some(Value::Integer(i)) = f.get(&format!("v{}", k)) {
            v.v.insert(k, i);
        }
    }
    v
}

pub fn read_seq(f: &Facts) -> Vec<String> {
    match f.get("seq") {
        Some(Value::Array(a)) => a.iter().map(|x| if let Value::String(s) = x { s.clone() } else { format!("{:?}", x) }).collect(),
        _ => vec![],
    }
}

#[derive(Clone, Debug, Default)]
pub struct EModel {
    pub fired_no_loop: BTreeSet<String>,
}

#[derive(Clone, Debug)]
pub struct RefOut {
    pub seq: Vec<String>,
    pub fired: usize,
    pub cycles: usize,
    pub passes: Vec<usize>, // firings per pass
    pub focus_after: String,
    pub undefined: bool,
    pub vars: Vars,
}

/// ref_forward: the documented pass loop. `order` = rules in insertion order.
pub fn ref_forward(rules: &[RSpec], em: &mut EModel, vars: &Vars, focus0: &str, t: DateTime<Utc>, max_cycles: usize) -> RefOut {
    let mut order: Vec<&RSpec> = rules.iter().collect();
    order.sort_by_key(|r| std::cmp::Reverse(r.salience)); // stable: insertion order among equals
    let mut out = RefOut { seq: vec![], fired: 0, cycles: 0, passes: vec![], focus_after: focus0.to_string(), undefined: false, vars: vars.clone() };
    let mut focus = focus0.to_string();
    for cycle in 0..max_cycles {
        out.cycles = cycle + 1;
        let mut any = 0usize;
        let mut fired_ag: BTreeSet<&str> = BTreeSet::new();
        for r in &order {
            if !r.enabled {
                continue;
            }
            if r.agenda.unwrap_or("MAIN") != focus {
                continue;
            }
            match r.active_at(t) {
                None => {
                    out.undefined = true;
                    continue;
                }
                Some(false) => continue,
                Some(true) => {}
            }
            if let Some(g) = r.actgrp {
                if fired_ag.contains(g) {
                    continue;
                }
            }
            if r.no_loop && em.fired_no_loop.contains(&r.name) {
                continue;
            }
            let holds = match r.cond {
                CondK::True => true,
                CondK::VarEq(k, c) => out.vars.get(k) == c,
                CondK::VarLt(k, c) => out.vars.get(k) < c,
            };
            if !holds {
                continue;
            }
            if r.act != ActK::Silent {
                out.seq.push(r.name.clone());
            }
            for a in [r.act, r.act2] {
                match a {
                    ActK::Nothing | ActK::Silent => {}
                    // the engine returns the error to the caller: nothing is claimed about this call
                    ActK::Fail => out.undefined = true,
                    // values are not compared beyond what the conditions of the family read
                    ActK::DoubleVar(k) => {
                        let n = out.vars.get(k).saturating_mul(2);
                        out.vars.v.insert(k, n);
                    }
                    ActK::DecVar(k) => {
                        let n = out.vars.get(k) - 1;
                        out.vars.v.insert(k, n);
                    }
                    ActK::ModBy(a, b) => {
                        let d = out.vars.get(b);
                        out.vars.v.insert(a, if d == 0 { 0 } else { 7 % d });
                    }
                    ActK::SetVar(k, c) => {
                        out.vars.v.insert(k, c);
                    }
                    ActK::IncVar(k) => {
                        let n = out.vars.get(k) + 1;
                        out.vars.v.insert(k, n);
                    }
                    ActK::Activate(g) => focus = g.to_string(),
                }
            }
            out.fired += 1;
            any += 1;
            if r.no_loop {
                em.fired_no_loop.insert(r.name.clone());
            }
            if let Some(g) = r.actgrp {
                fired_ag.insert(g);
            }
        }
        out.passes.push(any);
        if any == 0 {
            break;
        }
    }
    out.focus_after = focus;
    out
}

pub fn build_engine(rules: &[RSpec], via_grl: bool, max_cycles: usize) -> Result<RustRuleEngine, String> {
    let kb = KnowledgeBase::new("kb");
    if via_grl {
        let text: Vec<String> = rules.iter().map(|r| r.grl().unwrap()).collect();
        let parsed = GRLParser::parse_rules(&text.join("\n")).map_err(|e| format!("parse error: {:?}\n{}", e, text.join("\n")))?;
        if parsed.len() != rules.len() {
            return Err(format!("parsed {} rules out of {}:\n{}", parsed.len(), rules.len(), text.join("\n")));
        }
        for r in parsed {
            kb.add_rule(r).map_err(|e| format!("{:?}", e))?;
        }
    } else {
        for r in rules {
            kb.add_rule(r.build()).map_err(|e| format!("{:?}", e))?;
        }
    }
    Ok(RustRuleEngine::with_config(kb, EngineConfig { max_cycles, timeout: None, enable_stats: false, debug_mode: false }))
}

fn describe_rules(rules: &[RSpec]) -> Vec<String> {
    rules.iter().map(|r| r.grl().unwrap_or_else(|| format!("{:?}", r))).collect()
}

// ------------------------------------------------------------------------------------------------
// attribute product (SS)

const DIMS: usize = 9;

/// every variant of one rule with at most `k` non-default attribute dimensions
pub fn variants(name: &str, k: usize, boundaries: bool) -> Vec<RSpec> {
    let choices: Vec<Vec<Box<dyn Fn(&mut RSpec)>>> = vec![
        vec![Box::new(|r: &mut RSpec| r.salience = 5), Box::new(|r: &mut RSpec| r.salience = -1)],
        vec![Box::new(|r: &mut RSpec| r.enabled = false)],
        vec![Box::new(|r: &mut RSpec| r.no_loop = true)],
        vec![Box::new(|r: &mut RSpec| r.loa = true)],
        vec![Box::new(|r: &mut RSpec| r.agenda = Some("G"))],
        vec![Box::new(|r: &mut RSpec| r.actgrp = Some("A"))],
        if boundaries {
            vec![Box::new(|r: &mut RSpec| r.date = DateWin::NotYet), Box::new(|r: &mut RSpec| r.date = DateWin::Active), Box::new(|r: &mut RSpec| r.date = DateWin::Expired), Box::new(|r: &mut RSpec| r.date = DateWin::EffectiveNow), Box::new(|r: &mut RSpec| r.date = DateWin::ExpiresNow)]
        } else {
            vec![Box::new(|r: &mut RSpec| r.date = DateWin::NotYet), Box::new(|r: &mut RSpec| r.date = DateWin::Active), Box::new(|r: &mut RSpec| r.date = DateWin::Expired)]
        },
        vec![Box::new(|r: &mut RSpec| r.cond = CondK::VarEq(0, 1))],
        vec![Box::new(|r: &mut RSpec| r.act = ActK::SetVar(0, 1)), Box::new(|r: &mut RSpec| r.act = ActK::Activate("G"))],
    ];
    assert_eq!(choices.len(), DIMS);
    let mut out = vec![];
    fn rec(choices: &[Vec<Box<dyn Fn(&mut RSpec)>>], dim: usize, left: usize, cur: RSpec, out: &mut Vec<RSpec>) {
        if dim == choices.len() {
            out.push(cur);
            return;
        }
        rec(choices, dim + 1, left, cur.clone(), out);
        if left > 0 {
            for c in &choices[dim] {
                let mut n = cur.clone();
                c(&mut n);
                rec(choices, dim + 1, left - 1, n, out);
            }
        }
    }
    rec(&choices, 0, k, RSpec::plain(name), &mut out);
    out
}

#[derive(Clone, Copy, PartialEq)]
pub enum Purpose {
    Order,    // C02
    Fixpoint, // C03
}

/// run one rule set through one scenario against the real engine and compare
fn run_scenario(rules: &[RSpec], via_grl: bool, prior_focus: bool, calls: usize, max_cycles: usize, callback: bool, purpose: Purpose, rep: &mut Report, nontrivial: &mut BTreeSet<u64>) {
    rep.count("evaluations", 1);
    let case = json!({"sub": "attribute_product", "rules": describe_rules(rules), "specs": rules.iter().map(spec_json).collect::<Vec<_>>(), "via_grl": via_grl, "prior_focus_G": prior_focus, "calls": calls, "max_cycles": max_cycles, "callback": callback});
    let mut eng = match build_engine(rules, via_grl, max_cycles) {
        Ok(e) => e,
        Err(e) => {
            rep.violation(Violation { class: "rule_set_rejected".into(), detail: e, tags: vec![], case });
            return;
        }
    };
    let facts = mk_facts();
    let mut em = EModel::default();
    if prior_focus {
        eng.set_agenda_focus("G");
    }
    let has_loa = rules.iter().any(|r| r.loa && r.enabled);
    let mut loa_epoch_fired: BTreeMap<String, usize> = BTreeMap::new(); // firings of a LoA rule in the current epoch of its group
    let mut vars = Vars::default();
    let mut seq_seen = 0usize;
    for call in 0..calls {
        let focus0 = eng.get_active_agenda_group().to_string();
        let exp = ref_forward(rules, &mut em, &vars, &focus0, t_eval(), max_cycles);
        let mut cb_seq: Vec<String> = vec![];
        let res = if callback { eng.execute_with_callback(&facts, |name, _f| cb_seq.push(name.to_string())) } else { eng.execute_at_time(&facts, t_eval()) };
        let res = match res {
            Ok(r) => r,
            Err(e) => {
                rep.violation(Violation { class: "execute_failed".into(), detail: format!("{:?}", e), tags: vec![], case });
                return;
            }
        };
        let all_seq = read_seq(&facts);
        let seq: Vec<String> = all_seq[seq_seen.min(all_seq.len())..].to_vec();
        seq_seen = all_seq.len();
        vars = read_vars(&facts);
        // always: counters are consistent with the observed effects, and the bound is respected
        if res.rules_fired != seq.len() || (callback && cb_seq != seq) {
            rep.violation(Violation { class: "fired_count_differs_from_firings".into(), detail: format!("call {}: rules_fired = {}, firing sequence {:?}, callback sequence {:?}", call, res.rules_fired, seq, cb_seq), tags: vec![], case });
            return;
        }
        if res.cycle_count > max_cycles {
            rep.violation(Violation { class: "cycle_count_exceeds_max_cycles".into(), detail: format!("cycle_count {} > max_cycles {}", res.cycle_count, max_cycles), tags: vec![], case });
            return;
        }
        if exp.undefined {
            rep.count("undefined", 1);
            return;
        }
        // never-fires clauses (hold for every rule set, lock-on-active or not)
        for n in &seq {
            let r = rules.iter().find(|r| &r.name == n);
            match r {
                None => {
                    rep.violation(Violation { class: "unknown_rule_fired".into(), detail: format!("{} fired", n), tags: vec![], case });
                    return;
                }
                Some(r) => {
                    if !r.enabled || r.active_at(t_eval()) == Some(false) {
                        rep.violation(Violation { class: if !r.enabled { "disabled_rule_fired".into() } else { "rule_fired_outside_its_dates".into() }, detail: format!("rule {} fired (sequence {:?})", n, seq), tags: vec![], case });
                        return;
                    }
                }
            }
        }
        // focus along the observed sequence
        let mut focus = focus0.clone();
        let mut no_loop_seen: BTreeSet<String> = BTreeSet::new();
        for n in &seq {
            let r = rules.iter().find(|r| &r.name == n).unwrap();
            if r.agenda.unwrap_or("MAIN") != focus {
                rep.violation(Violation { class: "rule_fired_outside_focused_agenda_group".into(), detail: format!("rule {} (group {}) fired while the focus was {} (sequence {:?}, focus at call start {})", n, r.agenda.unwrap_or("MAIN"), focus, seq, focus0), tags: vec![], case });
                return;
            }
            if r.no_loop && !no_loop_seen.insert(n.clone()) {
                rep.violation(Violation { class: "no_loop_rule_fired_twice".into(), detail: format!("no-loop rule {} fired twice in {:?}", n, seq), tags: vec![], case });
                return;
            }
            if r.loa {
                let c = loa_epoch_fired.entry(n.clone()).or_insert(0);
                *c += 1;
                if *c > 1 {
                    let tags = vec![if seq.iter().any(|x| rules.iter().any(|q| &q.name == x && matches!(q.act, ActK::Activate(_)))) { "group_activated_by_action_in_same_call".to_string() } else { "no_activation_action".to_string() }];
                    rep.violation(Violation { class: "lock_on_active_rule_fired_twice_in_one_activation".into(), detail: format!("lock-on-active rule {} fired {} times within one activation of its group (sequence {:?})", n, c, seq), tags, case });
                    return;
                }
            }
            for a in [r.act, r.act2] {
                if let ActK::Activate(g) = a {
                    focus = g.to_string();
                    // a new activation epoch of g
                    for q in rules.iter().filter(|q| q.loa && q.agenda.unwrap_or("MAIN") == g) {
                        loa_epoch_fired.insert(q.name.clone(), 0);
                    }
                }
            }
        }
        if has_loa {
            // lock-on-active is only bounded from above: no exact sequence is demanded
            rep.count("clause_wise", 1);
            em.fired_no_loop.extend(seq.iter().filter(|n| rules.iter().any(|r| &r.name == *n && r.no_loop)).cloned());
            continue;
        }
        // exact: sequence, fired count, cycle count
        if exp.fired > 0 {
            nontrivial.insert(hstr(&format!("{:?}|{}|{}|{}", rules, prior_focus, calls, via_grl)));
        }
        let class = if seq != exp.seq {
            Some("firing_sequence_differs")
        } else if res.cycle_count != exp.cycles {
            Some(if purpose == Purpose::Fixpoint { "cycle_count_differs" } else { "cycle_count_differs" })
        } else {
            None
        };
        if let Some(c) = class {
            rep.violation(Violation {
                class: c.into(),
                detail: format!("call {} (focus {}): fired {:?} in {} cycles; the documented pass loop gives {:?} in {} cycles (firings per pass {:?})", call, focus0, seq, res.cycle_count, exp.seq, exp.cycles, exp.passes),
                tags: vec![],
                case,
            });
            return;
        }
        // fixpoint: stopped before the bound => nothing eligible is true on the final facts
        if res.cycle_count < max_cycles {
            let mut em2 = em.clone();
            let again = ref_forward(rules, &mut em2, &vars, &exp.focus_after, t_eval(), 1);
            if again.fired != 0 {
                rep.violation(Violation { class: "stopped_before_fixpoint".into(), detail: format!("stopped after {} < {} cycles although {:?} is still eligible and true", res.cycle_count, max_cycles, again.seq), tags: vec![], case });
                return;
            }
        }
        if [0usize, 1, 2].iter().any(|k| vars.get(*k) != exp.vars.get(*k)) {
            rep.violation(Violation { class: "final_facts_differ".into(), detail: format!("final variables {:?}, reference {:?}", vars.v, exp.vars.v), tags: vec![], case });
            return;
        }
    }
}

fn spec_json(r: &RSpec) -> serde_json::Value {
    let act = |a: ActK| match a {
        ActK::Nothing => json!(null),
        ActK::SetVar(k, c) => json!({"set": [k, c]}),
        ActK::IncVar(k) => json!({"inc": k}),
        ActK::Activate(g) => json!({"activate": g}),
        ActK::Fail => json!({"fail": true}),
        ActK::DoubleVar(k) => json!({"double": k}),
        ActK::DecVar(k) => json!({"dec": k}),
        ActK::ModBy(a, b) => json!({"mod": [a, b]}),
        ActK::Silent => json!({"silent": true}),
    };
    json!({"name": r.name, "salience": r.salience, "enabled": r.enabled, "no_loop": r.no_loop, "loa": r.loa, "agenda": r.agenda, "actgrp": r.actgrp,
        "date": format!("{:?}", r.date),
        "cond": match r.cond { CondK::True => json!("true"), CondK::VarEq(k, c) => json!({"eq": [k, c]}), CondK::VarLt(k, c) => json!({"lt": [k, c]}) },
        "act": act(r.act), "act2": act(r.act2)})
}

fn spec_from_json(v: &serde_json::Value) -> RSpec {
    let st = |s: Option<&str>| -> Option<&'static str> { s.map(|x| -> &'static str { Box::leak(x.to_string().into_boxed_str()) }) };
    let act = |a: &serde_json::Value| -> ActK {
        if let Some(s) = a.get("set") {
            ActK::SetVar(s[0].as_u64().unwrap_or(0) as usize, s[1].as_i64().unwrap_or(0))
        } else if let Some(k) = a.get("inc") {
            ActK::IncVar(k.as_u64().unwrap_or(0) as usize)
        } else if let Some(g) = a.get("activate") {
            ActK::Activate(st(g.as_str()).unwrap_or("G"))
        } else if let Some(k) = a.get("double") {
            ActK::DoubleVar(k.as_u64().unwrap_or(0) as usize)
        } else if let Some(k) = a.get("dec") {
            ActK::DecVar(k.as_u64().unwrap_or(0) as usize)
        } else if let Some(m) = a.get("mod") {
            ActK::ModBy(m[0].as_u64().unwrap_or(0) as usize, m[1].as_u64().unwrap_or(1) as usize)
        } else if a.get("fail").is_some() {
            ActK::Fail
        } else if a.get("silent").is_some() {
            ActK::Silent
        } else {
            ActK::Nothing
        }
    };
    RSpec {
        name: v["name"].as_str().unwrap_or("R").to_string(),
        salience: v["salience"].as_i64().unwrap_or(0) as i32,
        enabled: v["enabled"].as_bool().unwrap_or(true),
        no_loop: v["no_loop"].as_bool().unwrap_or(false),
        loa: v["loa"].as_bool().unwrap_or(false),
        agenda: st(v["agenda"].as_str()),
        actgrp: st(v["actgrp"].as_str()),
        date: match v["date"].as_str().unwrap_or("None") {
            "NotYet" => DateWin::NotYet,
            "Active" => DateWin::Active,
            "Expired" => DateWin::Expired,
            "EffectiveNow" => DateWin::EffectiveNow,
            "ExpiresNow" => DateWin::ExpiresNow,
            _ => DateWin::None,
        },
        cond: if let Some(e) = v["cond"].get("eq") {
            CondK::VarEq(e[0].as_u64().unwrap_or(0) as usize, e[1].as_i64().unwrap_or(0))
        } else if let Some(e) = v["cond"].get("lt") {
            CondK::VarLt(e[0].as_u64().unwrap_or(0) as usize, e[1].as_i64().unwrap_or(0))
        } else {
            CondK::True
        },
        act: act(&v["act"]),
        act2: act(&v["act2"]),
    }
}

fn parallel<T: Sync>(items: &[T], name: &str, f: impl Fn(&T, &mut Report, &mut BTreeSet<u64>) + Sync) -> Report {
    let next = AtomicUsize::new(0);
    let parts: Vec<(Report, BTreeSet<u64>)> = std::thread::scope(|sc| {
        let mut hs = vec![];
        for _ in 0..crate::threads() {
            hs.push(sc.spawn(|| {
                let mut rep = Report::new(name);
                let mut nt = BTreeSet::new();
                loop {
                    let k = next.fetch_add(1, Ordering::SeqCst);
                    if k >= items.len() {
                        break;
                    }
                    f(&items[k], &mut rep, &mut nt);
                }
                (rep, nt)
            }));
        }
        hs.into_iter().map(|h| h.join().unwrap_or_else(|_| explore::machinery("worker panicked"))).collect()
    });
    let mut total = Report::new(name);
    let mut nt_all = BTreeSet::new();
    for (r, nt) in parts {
        total.merge(r);
        nt_all.extend(nt);
    }
    total.count("nontrivial", nt_all.len() as u64);
    total
}

pub fn run_product(opts: &Opts, purpose: Purpose) -> Report {
    let t0 = Instant::now();
    let quick = opts.tier == Tier::Quick;
    let k = if quick { 3 } else { 4 };
    let va = variants("A", k, !quick);
    let vb = variants("B", k, !quick);
    let mut pairs: Vec<(RSpec, RSpec)> = vec![];
    for a in &va {
        for b in &vb {
            pairs.push((a.clone(), b.clone()));
        }
    }
    let name = "attribute_product_2_rules";
    let mut total = parallel(&pairs, name, |(a, b), rep, nt| {
        let rules = vec![a.clone(), b.clone()];
        let grl_ok = a.enabled && b.enabled;
        for prior in [false, true] {
            for calls in [1usize, 2] {
                run_scenario(&rules, false, prior, calls, 3, false, purpose, rep, nt);
            }
        }
        // the same rule set written in GRL and loaded through the parser
        if grl_ok {
            run_scenario(&rules, true, false, 2, 3, false, purpose, rep, nt);
        }
        // the second entry point (wall clock: only for rule sets without date windows)
        if a.date == DateWin::None && b.date == DateWin::None {
            run_scenario(&rules, false, false, 2, 3, true, purpose, rep, nt);
        }
    });
    total.sample(json!({"rules": describe_rules(&[pairs[pairs.len() / 3].0.clone(), pairs[pairs.len() / 3].1.clone()]), "scenario": "2 x execute_at_time, focus MAIN"}));
    total.bound = format!("every ordered pair of rules, each with <= {} non-default attributes out of {{salience 5/-1, disabled, no-loop, lock-on-active, agenda group G, activation group A, date window, condition on a variable another rule sets, action set-variable / ActivateAgendaGroup}} ({} variants per rule) x {{focus MAIN, focus G}} x {{1, 2 calls}} + GRL-loaded + execute_with_callback; max_cycles 3", k, va.len());
    total.wall_s = t0.elapsed().as_secs_f64();
    total
}

/// three rules: exhaustive within every triple of attribute dimensions (others default) — thorough only
pub fn run_triples(purpose: Purpose) -> Report {
    let t0 = Instant::now();
    let v1 = variants("A", 1, false);
    let v1b = variants("B", 1, false);
    let v1c = variants("C", 1, false);
    let mut triples = vec![];
    for a in &v1 {
        for b in &v1b {
            for c in &v1c {
                triples.push(vec![a.clone(), b.clone(), c.clone()]);
            }
        }
    }
    let mut total = parallel(&triples, "attribute_triples_3_rules", |rules, rep, nt| {
        for prior in [false, true] {
            run_scenario(rules, false, prior, 2, 4, false, purpose, rep, nt);
        }
    });
    total.sample(json!({"rules": describe_rules(&triples[triples.len() / 2])}));
    total.bound = format!("every ordered triple of rules with one non-default attribute each ({} variants per rule) x {{focus MAIN, focus G}} x 2 calls; max_cycles 4", v1.len());
    total.wall_s = t0.elapsed().as_secs_f64();
    total
}

// ------------------------------------------------------------------------------------------------
// histories of API calls on one engine (LS)

#[derive(Clone, Debug)]
pub enum Call {
    Exec(i64), // days relative to t_eval: -20, -10 (bound), 0, 10 (bound), 20
    Focus(&'static str),
    Pop,
    Clear,
    ActivateApi(&'static str),
    ResetNoLoop,
    /// the first no-loop rule of the set is removed from the engine's knowledge base and added again under the same
    /// name without no-loop (a hot replacement between two calls)
    ReplaceWithoutNoLoop,
    /// a new no-loop rule "Z" with a salience above every other rule is added to the engine's knowledge base between two
    /// calls (every stored rule moves one slot down)
    AddRuleInFront,
}

pub fn history_rule_sets() -> Vec<(&'static str, Vec<RSpec>)> {
    let p = RSpec::plain;
    let with = |mut r: RSpec, f: &dyn Fn(&mut RSpec)| {
        f(&mut r);
        r
    };
    vec![
        ("no_loop_and_plain", vec![with(p("A"), &|r| r.no_loop = true), with(p("B"), &|r| r.salience = 5)]),
        ("group_rule_and_activator", vec![with(p("A"), &|r| r.act = ActK::Activate("G")), with(p("B"), &|r| r.agenda = Some("G"))]),
        ("loa_in_group_with_activator", vec![with(p("A"), &|r| { r.salience = 10; r.act = ActK::Activate("G"); r.no_loop = true }), with(p("B"), &|r| { r.agenda = Some("G"); r.loa = true })]),
        ("loa_in_main", vec![with(p("A"), &|r| r.loa = true), with(p("B"), &|r| r.no_loop = true)]),
        ("activation_group_pair", vec![with(p("A"), &|r| r.actgrp = Some("X")), with(p("B"), &|r| { r.actgrp = Some("X"); r.salience = 5 }), p("C")]),
        ("dated_rules", vec![with(p("A"), &|r| r.date = DateWin::Active), with(p("B"), &|r| { r.date = DateWin::Active; r.no_loop = true })]),
        ("flag_chain", vec![with(p("A"), &|r| { r.act = ActK::SetVar(0, 1); r.no_loop = true }), with(p("B"), &|r| { r.cond = CondK::VarEq(0, 1); r.salience = 5; r.no_loop = true })]),
        ("group_no_loop_dated", vec![with(p("A"), &|r| { r.agenda = Some("G"); r.no_loop = true; r.date = DateWin::Active }), with(p("B"), &|r| r.salience = -1)]),
        // from here on: three agenda groups, driven with the focus alphabet (FOCUS_SETS_FROM)
        ("three_groups", vec![p("M"), with(p("A"), &|r| r.agenda = Some("G")), with(p("B"), &|r| r.agenda = Some("H"))]),
        ("three_groups_activating_actions", vec![
            with(p("M"), &|r| { r.act = ActK::Activate("G"); r.no_loop = true }),
            with(p("A"), &|r| { r.agenda = Some("G"); r.act = ActK::Activate("H"); r.no_loop = true }),
            with(p("B"), &|r| { r.agenda = Some("H"); r.act = ActK::Activate("G"); r.no_loop = true }),
        ]),
        // a lock-on-active rule whose own action moves the focus away; coming back by pop / clear is not a new activation
        ("lock_on_active_rule_activates_other_group", vec![
            with(p("M"), &|r| { r.loa = true; r.act = ActK::Activate("G") }),
            with(p("A"), &|r| { r.agenda = Some("G"); r.loa = true; r.act = ActK::Activate("H") }),
            with(p("B"), &|r| { r.agenda = Some("H"); r.no_loop = true }),
        ]),
    ]
}

pub const FOCUS_SETS_FROM: usize = 8;

pub struct HSys {
    rules: Vec<RSpec>,
    eng: RustRuleEngine,
    facts: Facts,
    em: EModel,
    vars: Vars,
    seq_seen: usize,
    loa_epoch_fired: BTreeMap<String, usize>,
    calls: Vec<String>,
    focus_alphabet: bool,
    /// focus stack as documented in AgendaManager::set_focus / pop_focus: distinct groups, set moves a
    /// group to the top, pop returns to the entry below. None = not known (after an Undefined execute).
    mstack: Option<Vec<String>>,
}

impl HSys {
    pub fn new(set: usize) -> Self {
        let rules = history_rule_sets()[set].1.clone();
        let eng = build_engine(&rules, false, 3).unwrap_or_else(|e| explore::machinery(&e));
        HSys { rules, eng, facts: mk_facts(), em: EModel::default(), vars: Vars::default(), seq_seen: 0, loa_epoch_fired: BTreeMap::new(), calls: vec![], focus_alphabet: set >= FOCUS_SETS_FROM, mstack: Some(vec!["MAIN".to_string()]) }
    }
    fn m_set_focus(&mut self, g: &str) {
        if let Some(st) = self.mstack.as_mut() {
            st.retain(|x| x != g);
            st.push(g.to_string());
        }
    }
    fn m_top(&self) -> Option<String> {
        self.mstack.as_ref().and_then(|s| s.last().cloned())
    }
    fn check_focus(&self) -> Result<(), Mismatch> {
        if let Some(top) = self.m_top() {
            let got = self.eng.get_active_agenda_group().to_string();
            if got != top {
                return Err(Mismatch::new("focused_group_differs_from_focus_history", format!("the focus history {:?} leaves group {} focused (stack {:?}) but the engine reports {}", self.calls, top, self.mstack.as_ref().unwrap(), got)));
            }
        }
        Ok(())
    }
    fn new_epoch(&mut self, g: &str) {
        for q in self.rules.iter().filter(|q| q.loa && q.agenda.unwrap_or("MAIN") == g) {
            self.loa_epoch_fired.insert(q.name.clone(), 0);
        }
    }
}

impl System for HSys {
    type Op = Call;
    fn enabled(&self) -> Vec<Call> {
        if self.focus_alphabet {
            return vec![Call::Exec(0), Call::Focus("G"), Call::Focus("H"), Call::Pop, Call::Focus("MAIN"), Call::Clear, Call::ActivateApi("H")];
        }
        let mut v = vec![Call::Exec(0), Call::Exec(-20), Call::Exec(20), Call::Exec(-10), Call::Exec(10), Call::Focus("G"), Call::Focus("MAIN"), Call::Pop, Call::Clear, Call::ActivateApi("G"), Call::ResetNoLoop];
        if self.rules.iter().any(|r| r.no_loop && !r.loa) && !self.rules.iter().any(|r| r.loa) {
            v.push(Call::ReplaceWithoutNoLoop);
        }
        if !self.rules.iter().any(|r| r.loa) && !self.rules.iter().any(|r| r.name == "Z") {
            v.push(Call::AddRuleInFront);
        }
        v
    }
    fn step(&mut self, op: &Call) -> Result<u64, Mismatch> {
        self.calls.push(format!("{:?}", op));
        match op {
            Call::Focus(g) => {
                self.eng.set_agenda_focus(g);
                self.new_epoch(g);
                if self.eng.get_active_agenda_group() != *g {
                    return Err(Mismatch::new("focus_not_set", format!("after set_agenda_focus({}) the active group is {}", g, self.eng.get_active_agenda_group())));
                }
                self.m_set_focus(g);
                Ok(1)
            }
            Call::ActivateApi(g) => {
                self.eng.activate_agenda_group(g.to_string());
                self.new_epoch(g);
                if self.eng.get_active_agenda_group() != *g {
                    return Err(Mismatch::new("focus_not_set", format!("after activate_agenda_group({}) the active group is {}", g, self.eng.get_active_agenda_group())));
                }
                self.m_set_focus(g);
                Ok(2)
            }
            Call::Pop => {
                self.eng.pop_agenda_focus();
                let got = self.eng.get_active_agenda_group().to_string();
                match self.mstack.as_mut() {
                    Some(st) if st.len() > 1 => {
                        st.pop();
                    }
                    Some(st) if st[0] != "MAIN" => {
                        // popping the only entry when it is not MAIN: staying there and falling back to MAIN are
                        // both reasonable; follow the code
                        if got != st[0] && got != "MAIN" {
                            return Err(Mismatch::new("focused_group_differs_from_focus_history", format!("pop on a stack holding only {} focused {}", st[0], got)));
                        }
                        *st = vec![got];
                    }
                    _ => {}
                }
                self.check_focus()?;
                Ok(3)
            }
            Call::Clear => {
                self.eng.clear_agenda_focus();
                if self.eng.get_active_agenda_group() != "MAIN" {
                    return Err(Mismatch::new("focus_not_set", "clear_agenda_focus did not return to MAIN".to_string()));
                }
                self.mstack = Some(vec!["MAIN".to_string()]);
                Ok(4)
            }
            Call::ResetNoLoop => {
                self.eng.reset_no_loop_tracking();
                self.em.fired_no_loop.clear();
                Ok(5)
            }
            Call::ReplaceWithoutNoLoop => {
                let i = self.rules.iter().position(|r| r.no_loop).unwrap();
                let mut r = self.rules.remove(i);
                r.no_loop = false;
                let removed = self.eng.knowledge_base().remove_rule(&r.name).map_err(|e| Mismatch::new("replace_failed", format!("{:?}", e)))?;
                if !removed {
                    return Err(Mismatch::new("replace_failed", format!("remove_rule({}) found nothing", r.name)));
                }
                self.eng.knowledge_base().add_rule(r.build()).map_err(|e| Mismatch::new("replace_failed", format!("{:?}", e)))?;
                self.em.fired_no_loop.remove(&r.name);
                self.rules.push(r);
                Ok(7)
            }
            Call::AddRuleInFront => {
                let mut r = RSpec::plain("Z");
                r.salience = 1000;
                r.no_loop = true;
                self.eng.knowledge_base().add_rule(r.build()).map_err(|e| Mismatch::new("add_failed", format!("{:?}", e)))?;
                self.rules.push(r);
                Ok(8)
            }
            Call::Exec(days) => {
                let t = t_eval() + Duration::days(*days);
                self.check_focus()?;
                let focus0 = self.m_top().unwrap_or_else(|| self.eng.get_active_agenda_group().to_string());
                let mut em2 = self.em.clone();
                let exp = ref_forward(&self.rules, &mut em2, &self.vars, &focus0, t, 3);
                let res = self.eng.execute_at_time(&self.facts, t).map_err(|e| Mismatch::new("execute_failed", format!("{:?}", e)))?;
                let all = read_seq(&self.facts);
                let seq: Vec<String> = all[self.seq_seen.min(all.len())..].to_vec();
                self.seq_seen = all.len();
                self.vars = read_vars(&self.facts);
                if res.rules_fired != seq.len() {
                    return Err(Mismatch::new("fired_count_differs_from_firings", format!("rules_fired {} vs firing sequence {:?}", res.rules_fired, seq)));
                }
                if res.cycle_count > 3 {
                    return Err(Mismatch::new("cycle_count_exceeds_max_cycles", format!("{}", res.cycle_count)));
                }
                if exp.undefined {
                    // an instant exactly on a date bound: follow the code, claim nothing
                    self.em.fired_no_loop.extend(seq.iter().filter(|n| self.rules.iter().any(|r| &r.name == *n && r.no_loop)).cloned());
                    for n in &seq {
                        if let Some(r) = self.rules.iter().find(|r| &r.name == n) {
                            if r.loa {
                                *self.loa_epoch_fired.entry(n.clone()).or_insert(0) += 1;
                            }
                        }
                    }
                    self.mstack = None;
                    return Ok(6);
                }
                let mut focus = focus0.clone();
                for n in &seq {
                    let Some(r) = self.rules.iter().find(|r| &r.name == n).cloned() else {
                        return Err(Mismatch::new("unknown_rule_fired", n.clone()));
                    };
                    if !r.enabled || r.active_at(t) == Some(false) {
                        return Err(Mismatch::new(if !r.enabled { "disabled_rule_fired" } else { "rule_fired_outside_its_dates" }, format!("rule {} fired at t{:+}d (sequence {:?})", n, days, seq)));
                    }
                    if r.agenda.unwrap_or("MAIN") != focus {
                        return Err(Mismatch::new("rule_fired_outside_focused_agenda_group", format!("rule {} (group {}) fired while the focus was {} (calls so far {:?})", n, r.agenda.unwrap_or("MAIN"), focus, self.calls)));
                    }
                    if r.no_loop && self.em.fired_no_loop.contains(n) {
                        return Err(Mismatch::new("no_loop_rule_fired_twice", format!("no-loop rule {} fired again without a reset (calls so far {:?})", n, self.calls)));
                    }
                    if r.no_loop {
                        self.em.fired_no_loop.insert(n.clone());
                    }
                    if r.loa {
                        let c = self.loa_epoch_fired.entry(n.clone()).or_insert(0);
                        *c += 1;
                        if *c > 1 {
                            let tag = if seq.iter().any(|x| self.rules.iter().any(|q| &q.name == x && matches!(q.act, ActK::Activate(_)))) { "group_activated_by_action_in_same_call" } else { "no_activation_action" };
                            return Err(Mismatch::tagged("lock_on_active_rule_fired_twice_in_one_activation", format!("lock-on-active rule {} fired {} times within one activation of its group (sequence {:?}, calls so far {:?})", n, c, seq, self.calls), &[tag]));
                        }
                    }
                    for a in [r.act, r.act2] {
                        if let ActK::Activate(g) = a {
                            focus = g.to_string();
                            self.new_epoch(g);
                            self.m_set_focus(g);
                        }
                    }
                }
                if !self.rules.iter().any(|r| r.loa) {
                    if seq != exp.seq || res.cycle_count != exp.cycles {
                        return Err(Mismatch::new(
                            if seq != exp.seq { "firing_sequence_differs" } else { "cycle_count_differs" },
                            format!("execute_at_time(t{:+}d) with focus {}: fired {:?} in {} cycles; the documented pass loop gives {:?} in {} cycles (calls so far {:?})", days, focus0, seq, res.cycle_count, exp.seq, exp.cycles, self.calls),
                        ));
                    }
                    self.em = em2;
                }
                self.check_focus()?;
                Ok(hstr(&format!("{:?}", seq)))
            }
        }
    }
    fn kind(op: &Call) -> String {
        match op {
            Call::Exec(d) if *d == 10 || *d == -10 => "execute_at_date_bound",
            Call::Exec(_) => "execute_at_time",
            Call::Focus(_) => "set_agenda_focus",
            Call::Pop => "pop_agenda_focus",
            Call::Clear => "clear_agenda_focus",
            Call::ActivateApi(_) => "activate_agenda_group",
            Call::ResetNoLoop => "reset_no_loop_tracking",
            Call::ReplaceWithoutNoLoop => "replace_rule",
            Call::AddRuleInFront => "add_rule_in_front",
        }
        .to_string()
    }
    fn model_state(&self) -> u64 {
        hstr(&format!("{:?}|{:?}|{}", self.em.fired_no_loop, self.vars.v, self.calls.len()))
    }
}

pub fn run_histories(opts: &Opts) -> Report {
    let depth = if opts.tier == Tier::Quick { 4 } else { 5 };
    let mut total = Report::new("call_histories");
    for (i, (name, rules)) in history_rule_sets().iter().enumerate().take(FOCUS_SETS_FROM) {
        let mut cfg = Config::new("call_histories", depth);
        cfg.ctx = json!({"rule_set": i, "rule_set_name": name, "rules": describe_rules(rules)});
        total.merge(explore::explore(&move || HSys::new(i), &cfg));
    }
    for l in ["execute_at_time", "execute_at_date_bound", "set_agenda_focus", "pop_agenda_focus", "clear_agenda_focus", "activate_agenda_group", "reset_no_loop_tracking"] {
        if !total.letters.contains_key(l) {
            total.notes.push(format!("VACUITY: letter '{}' never enabled", l));
        }
    }
    total.bound = format!("{} rule sets x all histories of <= {} calls over execute_at_time(5 instants incl. both date bounds) / set_agenda_focus(G|MAIN) / pop / clear / activate_agenda_group(G) / reset_no_loop_tracking on one engine", FOCUS_SETS_FROM, depth);
    total
}

/// focus histories over three agenda groups (MAIN, G, H): the focused group after every set / pop / clear /
/// activate history is the one the documented focus stack gives, and only its rules fire
pub fn run_focus_histories(opts: &Opts) -> Report {
    let depth = if opts.tier == Tier::Quick { 6 } else { 8 };
    let mut total = Report::new("focus_histories");
    let sets = history_rule_sets();
    for (i, (name, rules)) in sets.iter().enumerate().skip(FOCUS_SETS_FROM) {
        let mut cfg = Config::new("focus_histories", depth);
        cfg.ctx = json!({"rule_set": i, "rule_set_name": name, "rules": describe_rules(rules)});
        total.merge(explore::explore(&move || HSys::new(i), &cfg));
    }
    for l in ["execute_at_time", "set_agenda_focus", "pop_agenda_focus", "clear_agenda_focus", "activate_agenda_group"] {
        if !total.letters.contains_key(l) {
            total.notes.push(format!("VACUITY: letter '{}' never enabled", l));
        }
    }
    total.assumptions.push("focus stack as documented at AgendaManager::set_focus / pop_focus: a re-focused group moves to the top (no duplicates), pop returns to the entry below; popping a lone non-MAIN entry is left open".into());
    total.bound = format!("{} rule sets over agenda groups MAIN/G/H x all histories of <= {} calls over execute_at_time / set_agenda_focus(G|H|MAIN) / pop / clear / activate_agenda_group(H)", sets.len() - FOCUS_SETS_FROM, depth);
    total
}

/// date bounds with a fractional second: a rule is inactive up to the instant of its effective date and from the
/// instant of its expiry on, at millisecond resolution (the bound instant itself is left open, as everywhere)
pub fn run_subsecond_dates(_opts: &Opts) -> Report {
    let t0 = Instant::now();
    let mut rep = Report::new("date_bounds_with_fractional_seconds");
    let base = t_eval();
    let mut nt = 0u64;
    for bound_ms in [1i64, 250, 500, 999, 1000, 1500] {
        for kind in ["effective", "expires"] {
            for via_grl in [false, true] {
                for probe_ms in [bound_ms - 700, bound_ms - 1, bound_ms + 1, bound_ms + 700] {
                    rep.count("evaluations", 1);
                    let bound = base + Duration::milliseconds(bound_ms);
                    let probe = base + Duration::milliseconds(probe_ms);
                    let expect_fire = if kind == "effective" { probe > bound } else { probe < bound };
                    let case = json!({"sub": "date_bounds_with_fractional_seconds", "kind": kind, "bound_ms_after_base": bound_ms, "probe_ms_after_base": probe_ms, "via_grl": via_grl});
                    let kb = KnowledgeBase::new("kb");
                    let built: Result<(), String> = if via_grl {
                        let text = format!("rule \"D\" date-{} \"{}\" {{ when v9 == 0 then seq += \"D\"; }}", kind, bound.to_rfc3339_opts(chrono::SecondsFormat::Millis, true));
                        GRLParser::parse_rules(&text).map_err(|e| format!("{:?}\n{}", e, text)).and_then(|rs| rs.into_iter().try_for_each(|r| kb.add_rule(r).map_err(|e| format!("{:?}", e))))
                    } else {
                        let mut r = RSpec::plain("D").build();
                        r = if kind == "effective" { r.with_date_effective(bound) } else { r.with_date_expires(bound) };
                        kb.add_rule(r).map_err(|e| format!("{:?}", e))
                    };
                    if let Err(e) = built {
                        rep.violation(Violation { class: "rule_set_rejected".into(), detail: e, tags: vec![], case });
                        continue;
                    }
                    let mut eng = RustRuleEngine::with_config(kb, EngineConfig { max_cycles: 1, timeout: None, enable_stats: false, debug_mode: false });
                    let facts = mk_facts();
                    match eng.execute_at_time(&facts, probe) {
                        Err(e) => rep.violation(Violation { class: "execute_failed".into(), detail: format!("{:?}", e), tags: vec![], case }),
                        Ok(_) => {
                            nt += 1;
                            let fired = !read_seq(&facts).is_empty();
                            if fired != expect_fire {
                                rep.violation(Violation { class: if fired { "rule_fired_outside_its_dates".into() } else { "rule_inside_its_dates_did_not_fire".into() }, detail: format!("date-{} at base+{} ms, evaluated at base+{} ms ({}): the rule {}", kind, bound_ms, probe_ms, if via_grl { "GRL" } else { "builder" }, if fired { "fired" } else { "did not fire" }), tags: vec!["fractional_second_bound".into()], case });
                            }
                        }
                    }
                }
            }
        }
    }
    rep.count("nontrivial", nt);
    rep.sample(json!({"kind": "effective", "bound": "base + 500 ms", "probes": ["base - 200 ms", "base + 499 ms", "base + 501 ms", "base + 1200 ms"]}));
    rep.bound = "date-effective / date-expires at base + {1, 250, 500, 999, 1000, 1500} ms x evaluation 700 ms and 1 ms before and after the bound x {builder, GRL text with millisecond timestamps}".into();
    rep.wall_s = t0.elapsed().as_secs_f64();
    rep
}

/// larger rule sets: equal-salience rules keep insertion order however many rules there are and in whatever
/// salience order they were added (every n up to a bound x salience patterns with ties, builder and GRL)
pub fn run_many_rules(opts: &Opts) -> Report {
    let t0 = Instant::now();
    let nmax: usize = if opts.tier == Tier::Quick { 64 } else { 160 };
    let mut rep = Report::new("many_rules");
    let mut nt = BTreeSet::new();
    let patterns: Vec<(&str, Box<dyn Fn(usize, usize) -> i32>)> = vec![
        ("all_equal", Box::new(|_i, _n| 0)),
        ("all_equal_then_one_higher_last", Box::new(|i, n| if i + 1 == n { 10 } else { 0 })),
        ("all_equal_then_one_lower_last", Box::new(|i, n| if i + 1 == n { -10 } else { 0 })),
        ("one_lower_first_then_equal", Box::new(|i, _n| if i == 0 { -10 } else { 0 })),
        ("alternating_two", Box::new(|i, _n| (i % 2) as i32)),
        ("cycle_of_three", Box::new(|i, _n| (i % 3) as i32 - 1)),
        ("two_blocks_low_then_high", Box::new(|i, n| if i < n / 2 { 0 } else { 5 })),
        ("two_blocks_high_then_low", Box::new(|i, n| if i < n / 2 { 5 } else { 0 })),
        ("ascending_pairs", Box::new(|i, _n| (i / 2) as i32)),
        ("descending_pairs", Box::new(|i, n| ((n - i) / 2) as i32)),
        ("pseudo_mixed", Box::new(|i, _n| ((i * 7 + 3) % 5) as i32 - 2)),
    ];
    for n in 1..=nmax {
        for (pname, pat) in &patterns {
            for via_grl in [false, true] {
                if via_grl && n % 8 != 5 {
                    continue;
                }
                let rules: Vec<RSpec> = (0..n)
                    .map(|i| {
                        let mut r = RSpec::plain(&format!("R{:03}", i));
                        r.salience = pat(i, n);
                        r
                    })
                    .collect();
                rep.count("evaluations", 1);
                let case = json!({"sub": "many_rules", "n": n, "pattern": pname, "via_grl": via_grl, "saliences": rules.iter().map(|r| r.salience).collect::<Vec<_>>()});
                let eng = match build_engine(&rules, via_grl, 1) {
                    Ok(e) => e,
                    Err(e) => {
                        rep.violation(Violation { class: "rule_set_rejected".into(), detail: e, tags: vec![], case });
                        continue;
                    }
                };
                let mut eng = eng;
                let facts = mk_facts();
                let res = std::panic::catch_unwind(std::panic::AssertUnwindSafe(|| eng.execute_at_time(&facts, t_eval())));
                let seq = read_seq(&facts);
                let mut want: Vec<(i32, usize)> = rules.iter().enumerate().map(|(i, r)| (r.salience, i)).collect();
                want.sort_by(|a, b| b.0.cmp(&a.0).then(a.1.cmp(&b.1)));
                let want: Vec<String> = want.iter().map(|(_, i)| rules[*i].name.clone()).collect();
                nt.insert(hstr(&format!("{}|{}|{}", n, pname, via_grl)));
                match res {
                    Err(_) => rep.violation(Violation { class: "panic".into(), detail: explore::take_panic(), tags: vec![], case }),
                    Ok(Err(e)) => rep.violation(Violation { class: "execute_failed".into(), detail: format!("{:?}", e), tags: vec![], case }),
                    Ok(Ok(_)) => {
                        if seq != want {
                            let k = seq.iter().zip(want.iter()).position(|(a, b)| a != b).unwrap_or(seq.len().min(want.len()));
                            let tag = if n > 20 { "more_than_20_rules" } else { "at_most_20_rules" };
                            rep.violation(Violation {
                                class: "firing_sequence_differs".into(),
                                detail: format!("{} rules, salience pattern {}: firing order differs from descending salience / insertion order among equals at position {} (fired {:?}, expected {:?})", n, pname, k, seq.get(k), want.get(k)),
                                tags: vec![tag.to_string()],
                                case,
                            });
                        }
                    }
                }
            }
        }
    }
    rep.count("nontrivial", nt.len() as u64);
    rep.sample(json!({"n": 21, "pattern": "all_equal_then_one_higher_last", "expected_first": "R020"}));
    rep.bound = format!("every rule count 1..={} x {} salience patterns with ties (added in the listed order) through the builder, every 8th count also through GRL; one pass; firing order = descending salience, insertion order among equals", nmax, patterns.len());
    rep.wall_s = t0.elapsed().as_secs_f64();
    rep
}

pub fn run(opts: &Opts) -> Vec<Report> {
    let mut out = vec![];
    if crate::props::wants(opts, "attribute_product_2_rules") {
        out.push(run_product(opts, Purpose::Order));
    }
    if opts.tier == Tier::Thorough && crate::props::wants(opts, "attribute_triples_3_rules") {
        out.push(run_triples(Purpose::Order));
    }
    if crate::props::wants(opts, "call_histories") {
        out.push(run_histories(opts));
    }
    if crate::props::wants(opts, "focus_histories") {
        out.push(run_focus_histories(opts));
    }
    if crate::props::wants(opts, "many_rules") {
        out.push(run_many_rules(opts));
    }
    if crate::props::wants(opts, "date_bounds_with_fractional_seconds") {
        out.push(run_subsecond_dates(opts));
    }
    out
}

// ------------------------------------------------------------------------------------------------
// C01 family 4: data flow between rules (GRL text, nested facts)

pub fn run_dataflow(opts: &Opts) -> Vec<Report> {
    if !crate::props::wants(opts, "dataflow") {
        return vec![];
    }
    let t0 = Instant::now();
    let mut rep = Report::new("dataflow");
    let mut nt = BTreeSet::new();
    use crate::refval::{read, Store, V};
    // (template, expected final values as (path, number)), parameterised over saliences and start values
    let mut cases: Vec<(String, Vec<(String, V)>, Vec<(&'static str, f64)>, usize)> = vec![];
    for i0 in [5i64, 6] {
        for (s1, s2) in [(10, 5), (5, 10), (0, 0)] {
            // R1 feeds R2's condition
            let grl = format!("rule \"R1\" salience {} no-loop {{ when F.i == 5 then F.j = F.i + 1; }}\nrule \"R2\" salience {} no-loop {{ when F.j == 6 then Out.hit = 1; }}", s1, s2);
            let fires = i0 == 5;
            cases.push((grl, vec![("F.i".into(), V::Int(i0)), ("F.j".into(), V::Int(0))], vec![("F.j", if fires { 6.0 } else { 0.0 }), ("Out.hit", if fires { 1.0 } else { -1.0 })], 3));
            // R1 modifies what R2's right-hand side reads: the value at the moment of R2's firing
            let grl = format!("rule \"R1\" salience {} no-loop {{ when F.i >= 5 then F.i = F.i + 10; }}\nrule \"R2\" salience {} no-loop {{ when F.j == 0 then Out.v = F.i * 2; }}", s1, s2);
            let r1_first = s1 >= s2; // ties: insertion order
            let v = if r1_first { (i0 + 10) * 2 } else { i0 * 2 };
            cases.push((grl, vec![("F.i".into(), V::Int(i0)), ("F.j".into(), V::Int(0))], vec![("F.i", (i0 + 10) as f64), ("Out.v", v as f64)], 3));
            // self-reference: the right-hand side is evaluated on the facts before the write
            let grl = format!("rule \"R1\" salience {} no-loop {{ when F.i >= 5 then F.i = F.i * F.i - F.i; }}", s1);
            cases.push((grl, vec![("F.i".into(), V::Int(i0))], vec![("F.i", (i0 * i0 - i0) as f64)], 3));
            // R1 falsifies R2's condition within the same pass: R2 is decided on the facts as they are when it is considered
            let grl = format!("rule \"R1\" salience {} no-loop {{ when F.i == 5 then F.i = 6; }}\nrule \"R2\" salience {} no-loop {{ when F.i == 5 then Out.hit = 1; }}", s1, s2);
            let r2_fires = i0 == 5 && s2 > s1;
            cases.push((grl, vec![("F.i".into(), V::Int(i0))], vec![("F.i", if i0 == 5 { 6.0 } else { i0 as f64 }), ("Out.hit", if r2_fires { 1.0 } else { -1.0 })], 3));
            // the assignment target extends the name of a scalar fact: the value is stored and read back all the same
            let grl = format!("rule \"R1\" salience {} no-loop {{ when F.i >= 5 then S.level = F.i; }}\nrule \"R2\" salience {} no-loop {{ when S.level == {} then Out.hit = 1; }}", s1.max(s2) + 1, s2, i0);
            cases.push((grl, vec![("F.i".into(), V::Int(i0)), ("S".into(), V::Int(10))], vec![("Out.hit", 1.0)], 3));
            // three rules, chain across passes (reverse salience): needs 3 passes
            let grl = format!("rule \"R3\" salience 30 no-loop {{ when F.b == 2 then Out.c = F.b + F.a; }}\nrule \"R2\" salience 20 no-loop {{ when F.a == 1 then F.b = F.a + 1; }}\nrule \"R1\" salience 10 no-loop {{ when F.i == {} then F.a = 1; }}", i0);
            cases.push((grl, vec![("F.i".into(), V::Int(i0)), ("F.a".into(), V::Int(0)), ("F.b".into(), V::Int(0))], vec![("F.a", 1.0), ("F.b", 2.0), ("Out.c", 3.0)], 5));
        }
    }
    for (grl, init, expect, cycles) in cases {
        for (nested, entry) in [(true, "execute"), (false, "execute"), (true, "execute_with_callback"), (false, "execute_with_callback")] {
            rep.count("evaluations", 1);
            let store = Store { nested, vals: init.iter().cloned().collect() };
            let facts = store.to_facts(&["F", "Out"]);
            let case = json!({"sub": "dataflow", "grl": grl, "store": store.describe(), "expect": expect.iter().map(|(k, v)| (k.to_string(), *v)).collect::<BTreeMap<_, _>>(), "max_cycles": cycles, "entry": entry});
            match crate::props::c01::run_grl_via(&grl, &facts, cycles, entry) {
                Err((c, d)) => rep.violation(Violation { class: format!("dataflow_program_rejected_{}", c), detail: d, tags: vec![], case }),
                Ok(_) => {
                    nt.insert(hstr(&format!("{}|{}|{}", grl, nested, entry)));
                    for (path, want) in &expect {
                        let got = read(&facts, path).and_then(|v| v.num());
                        let ok = if *want < 0.0 { got.is_none() } else { got.map(|g| (g - want).abs() < 1e-9) == Some(true) };
                        if !ok {
                            rep.violation(Violation { class: "dataflow_value_differs".into(), detail: format!("{} = {:?}, expected {} ({} layout, {})\n{}", path, got, if *want < 0.0 { "absent".to_string() } else { want.to_string() }, if nested { "nested" } else { "flat" }, entry, grl), tags: vec![entry.to_string()], case: case.clone() });
                            break;
                        }
                    }
                }
            }
        }
    }
    rep.count("nontrivial", nt.len() as u64);
    rep.sample(json!({"grl": "rule \"R1\" salience 10 no-loop { when F.i == 5 then F.j = F.i + 1; } rule \"R2\" salience 5 no-loop { when F.j == 6 then Out.hit = 1; }"}));
    rep.bound = "6 two-/three-rule data-flow templates (assignment below the name of a scalar fact, rule feeds a later condition, rule changes what a later right-hand side reads, self-referencing assignment, rule falsifies a later condition within the pass, 3-pass chain in reverse salience) x 2 start values x 3 salience orders x nested/flat layout x {execute, execute_with_callback}".into();
    rep.wall_s = t0.elapsed().as_secs_f64();
    vec![rep]
}

pub fn replay(case: &serde_json::Value) -> crate::props::ReplayResult {
    match case["sub"].as_str().unwrap_or("") {
        "call_histories" | "focus_histories" => {
            let set = case["ctx"]["rule_set"].as_u64().unwrap_or(0) as usize;
            let ch = crate::props::choices_of(case);
            crate::props::conv(explore::replay(&move || HSys::new(set), &ch))
        }
        "date_bounds_with_fractional_seconds" => {
            // re-run the whole (small) family and report the recorded case if it still fails
            let rep = run_subsecond_dates(&crate::Opts { tier: Tier::Quick, only: None, budget_s: 0.0 });
            let hist = vec![case.to_string()];
            let same = |c: &serde_json::Value| c["kind"] == case["kind"] && c["bound_ms_after_base"] == case["bound_ms_after_base"] && c["probe_ms_after_base"] == case["probe_ms_after_base"] && c["via_grl"] == case["via_grl"];
            match rep.violations.iter().find(|v| same(&v.case)) {
                Some(v) => Err((hist, v.class.clone(), v.detail.clone())),
                None => Ok(hist),
            }
        }
        "many_rules" => {
            let sal: Vec<i32> = case["saliences"].as_array().map(|a| a.iter().map(|x| x.as_i64().unwrap_or(0) as i32).collect()).unwrap_or_default();
            let rules: Vec<RSpec> = sal.iter().enumerate().map(|(i, s)| { let mut r = RSpec::plain(&format!("R{:03}", i)); r.salience = *s; r }).collect();
            let hist = vec![format!("{} rules, saliences {:?}", rules.len(), sal)];
            let mut eng = build_engine(&rules, case["via_grl"].as_bool().unwrap_or(false), 1).map_err(|e| (hist.clone(), "rule_set_rejected".to_string(), e))?;
            let facts = mk_facts();
            eng.execute_at_time(&facts, t_eval()).map_err(|e| (hist.clone(), "execute_failed".to_string(), format!("{:?}", e)))?;
            let seq = read_seq(&facts);
            let mut want: Vec<(i32, usize)> = rules.iter().enumerate().map(|(i, r)| (r.salience, i)).collect();
            want.sort_by(|a, b| b.0.cmp(&a.0).then(a.1.cmp(&b.1)));
            let want: Vec<String> = want.iter().map(|(_, i)| rules[*i].name.clone()).collect();
            if seq != want {
                return Err((hist, "firing_sequence_differs".into(), format!("fired {:?}, expected {:?}", seq, want)));
            }
            Ok(hist)
        }
        "dataflow" => {
            use crate::refval::{read, Store, V};
            let grl = case["grl"].as_str().unwrap_or("").to_string();
            let nested = case["store"]["layout"].as_str() != Some("flat");
            let mut vals = BTreeMap::new();
            if let Some(m) = case["store"]["values"].as_object() {
                for (k, v) in m {
                    vals.insert(k.clone(), V::Int(v.as_str().unwrap_or("0").parse().unwrap_or(0)));
                }
            }
            let facts = Store { nested, vals }.to_facts(&["F", "Out"]);
            let hist = vec![grl.clone()];
            crate::props::c01::run_grl_via(&grl, &facts, case["max_cycles"].as_u64().unwrap_or(3) as usize, case["entry"].as_str().unwrap_or("execute")).map_err(|(c, d)| (hist.clone(), c, d))?;
            if let Some(m) = case["expect"].as_object() {
                for (path, want) in m {
                    let want = want.as_f64().unwrap_or(0.0);
                    let got = read(&facts, path).and_then(|v| v.num());
                    let ok = if want < 0.0 { got.is_none() } else { got.map(|g| (g - want).abs() < 1e-9) == Some(true) };
                    if !ok {
                        return Err((hist, "dataflow_value_differs".into(), format!("{} = {:?}, expected {}", path, got, want)));
                    }
                }
            }
            Ok(hist)
        }
        _ => {
            let rules: Vec<RSpec> = case["specs"].as_array().map(|a| a.iter().map(spec_from_json).collect()).unwrap_or_default();
            let mut rep = Report::new("replay");
            let mut nt = BTreeSet::new();
            run_scenario(&rules, case["via_grl"].as_bool().unwrap_or(false), case["prior_focus_G"].as_bool().unwrap_or(false), case["calls"].as_u64().unwrap_or(1) as usize, case["max_cycles"].as_u64().unwrap_or(3) as usize, case["callback"].as_bool().unwrap_or(false), Purpose::Order, &mut rep, &mut nt);
            let hist = describe_rules(&rules);
            match rep.violations.first() {
                Some(v) => Err((hist, v.class.clone(), v.detail.clone())),
                None => Ok(hist),
            }
        }
    }
}
