//! C05 — no text makes a parser or the expression evaluator panic or hang.
//! Exhaustive small-scope input enumeration (token strings, 1-edit neighbourhoods of seeds, depth
//! families, short UTF-8 strings), every input through every entry point, in watched child processes
//! with a fixed 8 MiB stack.
use crate::isolate::{self, Outcome};
use crate::report::{hstr, Report, Violation};
use crate::{Opts, Tier};
use rust_rule_engine::backward::aggregation::parse_aggregate_query;
use rust_rule_engine::backward::disjunction::DisjunctionParser;
use rust_rule_engine::backward::expression::ExpressionParser;
use rust_rule_engine::backward::grl_query::GRLQueryParser;
use rust_rule_engine::backward::nested::NestedQueryParser;
use rust_rule_engine::backward::query::QueryParser;
use rust_rule_engine::engine::facts::Facts;
use rust_rule_engine::parser::grl::stream_syntax::{parse_join_condition, parse_stream_join_pattern, parse_stream_pattern, parse_window_spec};
use rust_rule_engine::parser::grl::GRLParser;
use rust_rule_engine::types::Value;
use serde_json::json;
use std::collections::{BTreeMap, BTreeSet};
use std::time::{Duration, Instant};

const SUBJECTS: [&str; 13] = [
    "GRLParser::parse_rules",
    "GRLParser::parse_rule",
    "GRLParser::parse_with_modules",
    "QueryParser::parse",
    "ExpressionParser::parse",
    "GRLQueryParser::parse",
    "GRLQueryParser::parse_queries",
    "parse_aggregate_query",
    "DisjunctionParser::parse",
    "NestedQueryParser::parse",
    "stream_syntax::parse_stream_pattern",
    "stream_syntax::{parse_stream_join_pattern, parse_join_condition, parse_window_spec}",
    "expression::evaluate_expression",
];

fn call(subject: usize, input: &str, facts: &Facts) {
    match subject {
        0 => drop(GRLParser::parse_rules(input)),
        1 => drop(GRLParser::parse_rule(input)),
        2 => drop(GRLParser::parse_with_modules(input)),
        3 => drop(QueryParser::parse(input)),
        4 => drop(ExpressionParser::parse(input)),
        5 => drop(GRLQueryParser::parse(input)),
        6 => drop(GRLQueryParser::parse_queries(input)),
        7 => drop(parse_aggregate_query(input)),
        8 => drop(DisjunctionParser::parse(input)),
        9 => drop(NestedQueryParser::parse(input)),
        10 => drop(parse_stream_pattern(input).map(|_| ())),
        11 => {
            drop(parse_stream_join_pattern(input).map(|_| ()));
            drop(parse_join_condition(input).map(|_| ()));
            drop(parse_window_spec(input).map(|_| ()));
        }
        _ => drop(rust_rule_engine::expression::evaluate_expression(input, facts)),
    }
}

const SIGMA24: [&str; 24] = ["rule", "when", "then", "{", "}", "(", ")", "[", "]", "\"", "'", ";", ",", ".", "==", "&&", "||", "!", "+", "-", " ", "x", "1", "é"];
const SIGMA12: [&str; 12] = ["rule", "when", "then", "{", "}", "(", "\"", ";", "==", "!", "x", "é"];

const SEED_RULE: &str = "rule \"Vip Discount\" salience 10 no-loop {\n    when\n        User.tier == \"gold\" && (Order.total * 2 > 100 || !(User.banned == true))\n    then\n        Order.discount = Order.total * 0.1;\n        log(\"done; ok\");\n}";
const SEED_FILE: &str = "// header\ndefmodule SALES {\n  export: all\n}\nrule A { when X.a >= 1 then X.b = X.a + 1; }\nrule \"B b\" agenda-group \"g\" { when X.s contains \"é\" then retract($X); ActivateAgendaGroup(\"g\"); }";
const SEED_QUERY: &str = "User.IsVIP == true && Order.Amount > 1000";
const SEED_NOT_QUERY: &str = "NOT User.IsBanned == true";
const SEED_GRL_QUERY: &str = "query \"CheckVIP\" {\n    goal: User.IsVIP == true && Order.Total != 5\n    strategy: depth-first\n    max-depth: 10\n    on-success: {\n        User.Flag = true;\n        LogMessage(\"✅ ok\");\n    }\n    on-failure: {\n        User.Flag = false;\n    }\n}";
const SEED_AGG: &str = "sum(?salary) WHERE salary(?name, ?salary) AND ?salary > 80000";
const SEED_NESTED: &str = "grandparent(?x, ?z) WHERE parent(?x, ?y) AND (parent(?y, ?z) WHERE child(?z, ?y))";
const SEED_DISJ: &str = "(User.A == 1 OR User.B == \"x\" OR C)";
const SEED_STREAM: &str = "reading: TempReading from stream(\"sensors\") over window(10 min, sliding)";
const SEED_JOIN: &str = "a.user_id == b.user_id";
const SEED_EXPR: &str = "Order.quantity * Order.price + 10 - \"s\"";

fn tokenize(s: &str) -> Vec<String> {
    let mut out: Vec<String> = vec![];
    let mut cur = String::new();
    for c in s.chars() {
        if c.is_alphanumeric() || c == '_' {
            cur.push(c);
        } else {
            if !cur.is_empty() {
                out.push(std::mem::take(&mut cur));
            }
            out.push(c.to_string());
        }
    }
    if !cur.is_empty() {
        out.push(cur);
    }
    out
}

fn neighbours(seed: &str, out: &mut Vec<String>) {
    // every truncation at a char boundary
    for (i, _) in seed.char_indices() {
        out.push(seed[..i].to_string());
    }
    let toks = tokenize(seed);
    for i in 0..toks.len() {
        // deletion, duplication
        let mut d = toks.clone();
        d.remove(i);
        out.push(d.concat());
        let mut d = toks.clone();
        d.insert(i, toks[i].clone());
        out.push(d.concat());
    }
    // insertion of every token of the alphabet at every token boundary
    for i in 0..=toks.len() {
        for t in SIGMA24 {
            let mut d = toks.clone();
            d.insert(i, t.to_string());
            out.push(d.concat());
        }
    }
    // insertion of multi-byte characters at every char position
    for (i, _) in seed.char_indices().chain(std::iter::once((seed.len(), ' '))) {
        // (the last four change their UTF-8 length when lower-cased: Kelvin sign, dotted capital I, capital sharp s, Ohm sign)
        for m in ["é", "日", "\u{212a}", "\u{130}", "\u{1e9e}", "\u{2126}"] {
            out.push(format!("{}{}{}", &seed[..i], m, &seed[i..]));
        }
    }
}

fn token_strings(alphabet: &[&str], max_len: usize, out: &mut Vec<String>) {
    let mut level: Vec<String> = vec![String::new()];
    for _ in 0..max_len {
        let mut next = vec![];
        for p in &level {
            for t in alphabet {
                next.push(format!("{}{}", p, t));
            }
        }
        out.extend(next.iter().cloned());
        level = next;
    }
}

/// the complete, deterministic input list of a tier
pub fn inputs(tier: Tier) -> Vec<(String, &'static str)> {
    let quick = tier == Tier::Quick;
    let mut v: Vec<(String, &'static str)> = vec![];
    // 1. token strings, bare and in three holes of a rule skeleton
    let mut toks = vec![];
    token_strings(&SIGMA24, if quick { 3 } else { 4 }, &mut toks);
    token_strings(&SIGMA12, if quick { 4 } else { 5 }, &mut toks);
    let tset: BTreeSet<String> = toks.into_iter().collect();
    for t in &tset {
        v.push((t.clone(), "token_string"));
        v.push((format!("rule R {{ when {} then A.b = 1; }}", t), "token_string_in_condition"));
        v.push((format!("rule R {{ when A.b == 1 then {}; }}", t), "token_string_in_action"));
        v.push((format!("rule {} {{ when A.b == 1 then A.c = 2; }}", t), "token_string_in_header"));
    }
    // 2. one-edit neighbours of the seeds
    let seeds: Vec<&str> = vec![SEED_RULE, SEED_FILE, SEED_QUERY, SEED_NOT_QUERY, SEED_GRL_QUERY, SEED_AGG, SEED_NESTED, SEED_DISJ, SEED_STREAM, SEED_JOIN, SEED_EXPR];
    for s in &seeds {
        v.push((s.to_string(), "seed"));
        let mut n = vec![];
        neighbours(s, &mut n);
        for x in n {
            v.push((x, "seed_one_edit"));
        }
    }
    if !quick {
        // two edits away from the three smallest seeds
        for s in [SEED_JOIN, SEED_NOT_QUERY, SEED_DISJ] {
            let mut n1 = vec![];
            neighbours(s, &mut n1);
            let pick: BTreeSet<String> = n1.into_iter().collect();
            for x in pick {
                let mut n2 = vec![];
                neighbours(&x, &mut n2);
                for y in n2 {
                    v.push((y, "seed_two_edits"));
                }
            }
        }
    }
    // 3. depth families
    let mut ns: Vec<usize> = (1..=32).collect();
    ns.extend([48, 64, 128, 256, 512, 1024, 2048, 4090]);
    for &n in &ns {
        let fams: Vec<(String, &'static str)> = vec![
            (format!("{}x", "!".repeat(n)), "chain_not"),
            ("(".repeat(n), "chain_open_paren"),
            ("[".repeat(n), "chain_open_bracket"),
            (format!("{}x", "NOT ".repeat(n.min(1000))), "chain_not_keyword"),
            ((0..n.min(2000)).map(|_| "1").collect::<Vec<_>>().join("+"), "chain_plus"),
            ((0..n.min(2000)).map(|_| "x").collect::<Vec<_>>().join("."), "chain_dots"),
            ((0..n.min(800)).map(|_| "x == 1").collect::<Vec<_>>().join(" && "), "chain_and"),
        ];
        for (t, tag) in fams {
            if t.len() > 4096 {
                continue;
            }
            v.push((t.clone(), tag));
            let in_rule = format!("rule R {{ when {} then A.b = 1; }}", t);
            if in_rule.len() <= 4096 {
                v.push((in_rule, tag));
            }
            let in_action = format!("rule R {{ when A.b == 1 then A.c = {}; }}", t);
            if in_action.len() <= 4096 {
                v.push((in_action, tag));
            }
        }
        // balanced bracket nesting only up to 32 (the property's bound)
        if n <= 32 {
            v.push((format!("{}x == 1{}", "(".repeat(n), ")".repeat(n)), "nest_balanced"));
            v.push((format!("rule R {{ when {}A.b == 1{} then A.b = 1; }}", "(".repeat(n), ")".repeat(n)), "nest_balanced"));
            v.push((format!("rule R {{ when A.b == 1 then A.c = {}1{}; }}", "(".repeat(n), ")".repeat(n)), "nest_balanced"));
            v.push((format!("{}1{}", "[".repeat(n), "]".repeat(n)), "nest_balanced"));
            v.push((format!("{}{}", "{".repeat(n), "}".repeat(n)), "nest_balanced"));
        }
    }
    // 4. every string of <= 2 scalar values over a 40-value alphabet incl. 2-, 3-, 4-byte characters
    let alpha: Vec<char> = vec!['a', 'Z', '0', '9', '_', ' ', '\n', '\t', '"', '\'', '(', ')', '{', '}', '[', ']', ';', ',', '.', '=', '!', '<', '>', '&', '|', '+', '-', '*', '/', '%', '$', '?', ':', '\\', 'é', 'ß', '日', '名', '😀', '\u{0}', '\u{212a}', '\u{130}', '\u{1e9e}', '\u{2126}'];
    for a in &alpha {
        v.push((a.to_string(), "utf8_short"));
        for b in &alpha {
            v.push((format!("{}{}", a, b), "utf8_short"));
            v.push((format!("rule {}{} {{ when A.b == 1 then A.c = 2; }}", a, b), "utf8_short"));
            v.push((format!("rule R {{ when A.b == {}{} then A.c = 2; }}", a, b), "utf8_short"));
        }
    }
    // 5. arithmetic: operand / operator strings for the evaluator (zero, extreme, negative, float, string, field and
    //    missing-field operands; every operator between every pair, and chains of two operators)
    let operands: [&str; 16] = ["0", "1", "-1", "7", "2.5", "0.0", "9223372036854775807", "-9223372036854775808", "x", "z", "m", "neg", "s", "f0", "Order.quantity", "nope"];
    let small: [&str; 8] = ["0", "7", "-1", "2.5", "z", "m", "neg", "s"];
    let ops = ["+", "-", "*", "/", "%"];
    for a in &operands {
        v.push((a.to_string(), "arithmetic"));
        v.push((format!("-{}", a), "arithmetic"));
        v.push((format!("({})", a), "arithmetic"));
        for o in &ops {
            v.push((format!("{}{}", a, o), "arithmetic"));
            v.push((format!("{}{}", o, a), "arithmetic"));
            for b in &operands {
                v.push((format!("{} {} {}", a, o, b), "arithmetic"));
                v.push((format!("{}{}{}", a, o, b), "arithmetic"));
                v.push((format!("({} {} {})", a, o, b), "arithmetic"));
            }
        }
    }
    let (ta, tc): (&[&str], &[&str]) = if quick { (&small, &small) } else { (&operands, &operands) };
    for a in ta {
        for o1 in &ops {
            for b in &operands {
                for o2 in &ops {
                    for c in tc {
                        v.push((format!("{} {} {} {} {}", a, o1, b, o2, c), "arithmetic"));
                        if !quick || (*o1 == "%" || *o2 == "%" || *o1 == "/" || *o2 == "/") {
                            v.push((format!("({} {} {}) {} {}", a, o1, b, o2, c), "arithmetic"));
                            v.push((format!("{} {} ({} {} {})", a, o1, b, o2, c), "arithmetic"));
                        }
                    }
                }
            }
        }
    }
    // 5b. characters whose lower- or upper-case form has another UTF-8 length, once and twice, at every token boundary
    //     of the seed rule (case folding that is used to compute byte offsets shifts them)
    {
        let toks = tokenize(SEED_RULE);
        for ch in ["\u{212a}", "\u{130}", "\u{1e9e}", "\u{2126}", "\u{212b}", "\u{fb01}"] {
            for i in 0..=toks.len() {
                for j in i..=toks.len() {
                    if j > i + 12 && j != toks.len() {
                        continue;
                    }
                    let mut t = toks.clone();
                    t.insert(j, ch.to_string());
                    t.insert(i, ch.to_string());
                    v.push((t.concat(), "case_folding_length_change"));
                }
            }
        }
        // the same code points at every pair of character positions of two query texts (the query parsers look for
        // their keywords — WHERE, AND, NOT — case-insensitively or by offset)
        for seed in ["sum(?amount) WHERE purchase(?item, ?amount)", "count(?é) where ü(?é) AND NOT b(?é)"] {
            let cs: Vec<char> = seed.chars().collect();
            for ch in ["\u{212a}", "\u{130}", "\u{1e9e}", "\u{2126}", "\u{212b}", "\u{fb01}"] {
                for i in 0..=cs.len() {
                    for j in i..=cs.len() {
                        if j > i + 6 && j != cs.len() {
                            continue;
                        }
                        let mut t: Vec<String> = cs.iter().map(|c| c.to_string()).collect();
                        t.insert(j, ch.to_string());
                        t.insert(i, ch.to_string());
                        v.push((t.concat(), "case_folding_length_change"));
                    }
                    let mut t: Vec<String> = cs.iter().map(|c| c.to_string()).collect();
                    t.insert(i, ch.to_string());
                    v.push((t.concat(), "case_folding_length_change"));
                }
            }
        }
        for ch in ["\u{212a}", "\u{130}"] {
            for tail in ["", " ", "é", "x", "\u{130}"] {
                v.push((format!("rule R {{ when A.b == 1 {} then{}", ch, tail), "case_folding_length_change"));
                v.push((format!("rule R {{ when A.b == {}{} then {}é = 1; }}", ch, ch, tail), "case_folding_length_change"));
                v.push((format!("rule R {{ when {} then {}", ch, tail), "case_folding_length_change"));
            }
        }
    }
    // 6. module markers (`;; MODULE: NAME` comment lines read by parse_with_modules) followed by every short tail
    let tails = ["", " ", "A", " A", " A - sales rules", "é", " é", "€", "\n", "rule", " rule", "\t", ";", ";;", " MODULE:", "\u{0}"];
    let rule_texts = ["rule \"R\" { when A.b == 1 then A.c = 2; }", "rule R { when A.b == 1 then A.c = 2; }"];
    for marker in [";; MODULE:", ";;MODULE:", ";; MODULE", ";; module:", "; MODULE:", ";; MODULE::"] {
        for t in &tails {
            for r in &rule_texts {
                v.push((format!("{}{}{}", marker, t, r), "module_marker"));
                v.push((format!("{}{}\n{}", marker, t, r), "module_marker"));
                v.push((format!("{}\n{}{}\n{}", r, marker, t, r), "module_marker"));
            }
            v.push((format!("{}{}", marker, t), "module_marker"));
        }
    }
    // 7. repetition of a short unit up to the full 4 KiB (the property's "prefix-operator chains ... up to the full
    //    length", for every unit of one or two tokens, not only `!` and `(`): bare, in a condition and in an action
    let rtoks: [&str; 22] = ["f", "(", ")", "x", ".", ",", "\"", " ", "1", "==", "&&", "!", "[", "]", "{", "}", ";", "+", "-", "é", "when", "then"];
    let mut units: Vec<String> = rtoks.iter().map(|t| t.to_string()).collect();
    for a in &rtoks {
        for b in &rtoks {
            units.push(format!("{}{}", a, b));
        }
    }
    units.extend(["f()".to_string(), "f(x)".to_string(), "f(x),".to_string(), "a.b ".to_string(), "x == 1 ".to_string(), "\"s\" ".to_string(), "(x) ".to_string()]);
    let reps: &[usize] = if quick { &[64, 1024] } else { &[16, 64, 256, 1024, 4096] };
    for u in &units {
        for &n in reps {
            // quick tier: units with `{` make parse_rule take ~10 s per 4 KiB input (slow, far below the 120 s
            // watchdog); they, and units without a bracket or quote, are repeated 256 times here and to the full
            // length in the thorough tier
            let n = if quick && (u.contains('{') || !u.contains(|c| "()\"[]".contains(c))) { n.min(256) } else { n };
            let k = n.min(4000 / u.len().max(1));
            let body = u.repeat(k);
            v.push((body.clone(), "unit_repetition"));
            v.push((format!("rule R {{ when {} then A.b = 1; }}", body), "unit_repetition"));
            v.push((format!("rule R {{ when A.b == 1 then {} }}", body), "unit_repetition"));
        }
    }
    // 8. numeric extremes where a parser converts units (stream window durations, salience, max-depth)
    for num in ["0", "1", "18446744073709551615", "18446744073709551616", "9223372036854775807", "9223372036854775808", "4294967296", "-1", "1e30", "99999999999999999999999999"] {
        for unit in ["ms", "sec", "min", "hour", "hours", "days", "s", "m", "h", "d", ""] {
            v.push((format!("e: from stream(\"x\") over window({} {}, sliding)", num, unit), "numeric_extreme"));
            v.push((format!("e: from stream(\"x\") over window({} {}, tumbling)", num, unit), "numeric_extreme"));
            v.push((format!("window({} {}, sliding)", num, unit), "numeric_extreme"));
            v.push((format!("{} {}", num, unit), "numeric_extreme"));
        }
        v.push((format!("rule R salience {} {{ when A.b == 1 then A.c = 2; }}", num), "numeric_extreme"));
        v.push((format!("query \"Q\" {{\n goal: A.b == 1\n max-depth: {}\n max-solutions: {}\n}}", num, num), "numeric_extreme"));
        v.push((format!("rule R {{ when A.b == {} then A.c = {}; }}", num, num), "numeric_extreme"));
    }
    // 9. module graphs: every shape of import graph a module file of <= 4 KiB can hold in regular families — chains,
    //    fans, and layers of width 2 and 3 in which every module imports every module of the layer below (the number of
    //    import *paths* grows exponentially with the number of layers, the number of modules linearly)
    for layers in 1..=40usize {
        for width in [1usize, 2, 3] {
            for compact in [true, false] {
                let names: Vec<String> = (0..width).map(|w| ["A", "B", "C"][w].to_string()).collect();
                let mut text = String::new();
                for k in 0..layers {
                    for n in &names {
                        if k == 0 {
                            text.push_str(&if compact { format!("defmodule {}{}{{}}\n", n, k) } else { format!("defmodule {}{} {{\n  export: all\n}}\n", n, k) });
                        } else {
                            let imports: Vec<String> = names.iter().map(|m| if compact { format!("import:{}{}(rules)", m, k - 1) } else { format!("  import: {}{} (rules *)", m, k - 1) }).collect();
                            text.push_str(&if compact { format!("defmodule {}{}{{{}}}\n", n, k, imports.join("\n")) } else { format!("defmodule {}{} {{\n{}\n  export: all\n}}\n", n, k, imports.join("\n")) });
                        }
                    }
                }
                text.push_str("rule \"R\" { when X.v > 1 then X.w = 2; }\n");
                if text.len() <= 4096 {
                    v.push((text, "module_graph"));
                }
            }
        }
    }
    // fan-in / fan-out: one module importing n others, n modules importing one
    for n in [1usize, 2, 4, 8, 16, 32, 64] {
        let mut fan_in = String::new();
        let mut fan_out = String::from("defmodule Z{}\n");
        for i in 0..n {
            fan_in.push_str(&format!("defmodule M{}{{}}\n", i));
            fan_out.push_str(&format!("defmodule M{}{{import:Z(rules)}}\n", i));
        }
        fan_in.push_str(&format!("defmodule Z{{{}}}\n", (0..n).map(|i| format!("import:M{}(rules)", i)).collect::<Vec<_>>().join("\n")));
        for t in [fan_in, fan_out] {
            if t.len() <= 4096 {
                v.push((format!("{}rule \"R\" {{ when X.v > 1 then X.w = 2; }}\n", t), "module_graph"));
            }
        }
    }
    // de-duplicate, keep order
    let mut seen = BTreeSet::new();
    v.retain(|(s, _)| seen.insert(s.clone()));
    v
}

fn set_arith_facts(facts: &Facts) {
    facts.set("z", Value::Integer(0));
    facts.set("m", Value::Integer(i64::MIN));
    facts.set("neg", Value::Integer(-1));
    facts.set("s", Value::String("abc".to_string()));
    facts.set("f0", Value::Number(0.0));
}

fn tier_of() -> Tier {
    if std::env::var("VCHECK_TIER").as_deref() == Ok("thorough") {
        Tier::Thorough
    } else {
        Tier::Quick
    }
}

pub fn child(spec: &str) {
    let cs = isolate::parse_spec(spec);
    let ins = inputs(tier_of());
    let facts = Facts::new();
    facts.set("x", Value::Integer(3));
    facts.set("Order.quantity", Value::Integer(2));
    facts.set("Order.price", Value::Number(1.5));
    let mut o = std::collections::HashMap::new();
    o.insert("b".to_string(), Value::Integer(1));
    facts.set("A", Value::Object(o));
    set_arith_facts(&facts);
    isolate::child_loop(&cs, 8, |k| {
        let input = &ins[k].0;
        let mut panics = vec![];
        let mut slow = vec![];
        for s in 0..SUBJECTS.len() {
            let t = Instant::now();
            let r = std::panic::catch_unwind(std::panic::AssertUnwindSafe(|| call(s, input, &facts)));
            let el = t.elapsed().as_secs_f64();
            if el > 1.0 {
                slow.push(json!([s, el]));
            }
            if r.is_err() {
                panics.push(json!([s, crate::explore::take_panic()]));
            }
        }
        let p = !panics.is_empty();
        (json!({"p": panics, "slow": slow}), p)
    });
}

pub fn run(opts: &Opts) -> Vec<Report> {
    let t0 = Instant::now();
    let mut rep = Report::new("inputs_x_entry_points");
    let ins = inputs(opts.tier);
    let n = ins.len();
    let timeout = Duration::from_secs(if opts.tier == Tier::Quick { 20 } else { 120 });
    let tier_env = if opts.tier == Tier::Quick { "quick" } else { "thorough" };
    let res = isolate::run_batch("C05", "inputs", n, timeout, 64, &[("VCHECK_TIER", tier_env.to_string())]);
    let mut done = BTreeSet::new();
    let mut sites: BTreeMap<String, usize> = BTreeMap::new();
    let mut slowest = 0.0f64;
    let mut slow_calls: Vec<(f64, &str, &str, String, usize)> = vec![];
    for (k, o) in res {
        done.insert(k);
        rep.count("evaluations", SUBJECTS.len() as u64);
        rep.count("inputs", 1);
        rep.tag(ins[k].1);
        let case = |subject: Option<usize>| json!({"sub": "inputs_x_entry_points", "input": ins[k].0, "family": ins[k].1, "subject": subject.map(|s| SUBJECTS[s])});
        match o {
            Outcome::Done(v) => {
                for p in v["p"].as_array().cloned().unwrap_or_default() {
                    let s = p[0].as_u64().unwrap_or(0) as usize;
                    let msg = p[1].as_str().unwrap_or("").to_string();
                    let site = msg.rsplit(" @ ").next().unwrap_or("").to_string();
                    *sites.entry(site.clone()).or_insert(0) += 1;
                    let mut tags = vec![ins[k].1.to_string()];
                    if !ins[k].0.is_ascii() {
                        tags.push("non_ascii".into());
                    }
                    rep.violation(Violation { class: format!("panic_at_{}", site.replace(|c: char| !c.is_alphanumeric(), "_")), detail: format!("{} panicked on {:?}: {}", SUBJECTS[s], truncate(&ins[k].0), msg), tags, case: case(Some(s)) });
                }
                for sl in v["slow"].as_array().cloned().unwrap_or_default() {
                    let t = sl[1].as_f64().unwrap_or(0.0);
                    slowest = slowest.max(t);
                    slow_calls.push((t, SUBJECTS[sl[0].as_u64().unwrap_or(0) as usize % SUBJECTS.len()], ins[k].1, truncate(&ins[k].0), ins[k].0.len()));
                }
            }
            Outcome::Hang => rep.violation(Violation { class: "did_not_terminate".into(), detail: format!("no entry point returned within {:?} on {:?} ({} bytes)", timeout, truncate(&ins[k].0), ins[k].0.len()), tags: vec![ins[k].1.to_string()], case: case(None) }),
            Outcome::Abort(m) => rep.violation(Violation { class: "process_aborted".into(), detail: format!("{} (stack overflow on an 8 MiB stack?) on {:?} ({} bytes)", m, truncate(&ins[k].0), ins[k].0.len()), tags: vec![ins[k].1.to_string()], case: case(None) }),
        }
    }
    if let Some(t) = isolate::truncated() {
        rep.cap_hit = Some(t);
    } else if done.len() != n {
        rep.notes.push(format!("MACHINERY: {} of {} inputs produced no result", n - done.len(), n));
    }
    let distinct: BTreeSet<u64> = ins.iter().map(|(s, _)| hstr(s)).collect();
    rep.count("nontrivial", distinct.len() as u64);
    rep.count("panic_sites", sites.len() as u64);
    if !sites.is_empty() {
        rep.notes.push(format!("panic sites: {:?}", sites));
    }
    rep.notes.push(format!("slowest single call: {:.2} s", slowest));
    slow_calls.sort_by(|a, b| b.0.partial_cmp(&a.0).unwrap_or(std::cmp::Ordering::Equal));
    for (t, subj, fam, inp, len) in slow_calls.iter().take(12) {
        rep.notes.push(format!("slow call: {:.2} s in {} on a {}-byte {} input {:?}", t, subj, len, fam, inp.chars().take(60).collect::<String>()));
    }
    rep.count("calls_slower_than_1s", slow_calls.len() as u64);
    rep.sample(json!({"input": ins[n / 3].0, "family": ins[n / 3].1}));
    rep.sample(json!({"input": ins[2 * n / 3].0, "family": ins[2 * n / 3].1}));
    rep.bound = format!("{} distinct inputs x {} entry points: all token strings (len <= {} over 24 tokens, <= {} over 12) bare and in 3 holes of a rule skeleton; every 1-edit neighbour (truncation, token deletion/duplication/insertion, multi-byte insertion) of {} seeds; depth families n in 1..32, 48, 64, 128..4090 (balanced nesting <= 32); all strings of <= 2 scalars over 40 values; arithmetic: every operator between every pair of 16 operands (zero, extremes, negative, float, string, integer-zero / i64::MIN / missing fields) and two-operator chains with both parenthesisations; module markers x 16 tails; every unit of one or two tokens over 22 tokens repeated up to 4 KiB (bare, in a condition, in an action); numeric extremes x time units in stream windows, salience, query limits; module files with import graphs in chains, fans and layers of width 1-3 up to 4 KiB; watchdog {:?} per input, 8 MiB stack", n, SUBJECTS.len(), if opts.tier == Tier::Quick { 3 } else { 4 }, if opts.tier == Tier::Quick { 4 } else { 5 }, 11, timeout);
    rep.assumptions.push("a case is non-trivial by construction (each input is distinct and goes through all 13 entry points)".into());
    rep.wall_s = t0.elapsed().as_secs_f64();
    vec![rep]
}

fn truncate(s: &str) -> String {
    if s.chars().count() > 120 {
        format!("{}…", s.chars().take(120).collect::<String>())
    } else {
        s.to_string()
    }
}

pub fn replay(case: &serde_json::Value) -> crate::props::ReplayResult {
    // replayed in a child as well (the failure may be an abort or a hang)
    let input = case["input"].as_str().unwrap_or("").to_string();
    let hist = vec![truncate(&input)];
    let path = format!("{}/c05-replay-{}.txt", std::env::var("VCHECK_SCRATCH").unwrap_or_else(|_| "/tmp".into()), std::process::id());
    std::fs::write(&path, &input).map_err(|e| (hist.clone(), "machinery".to_string(), e.to_string()))?;
    let res = isolate::run_batch_from("C05", "replay", 0, 1, Duration::from_secs(125), 1, &[("VCHECK_C05_REPLAY", path.clone())]);
    let _ = std::fs::remove_file(&path);
    for (_, o) in res {
        return match o {
            Outcome::Done(v) => {
                if let Some(p) = v["p"].as_array().and_then(|a| a.first()) {
                    Err((hist, "panic".into(), format!("{} panicked: {}", SUBJECTS[p[0].as_u64().unwrap_or(0) as usize], p[1])))
                } else {
                    Ok(hist)
                }
            }
            Outcome::Hang => Err((hist, "did_not_terminate".into(), "no return within 125 s".into())),
            Outcome::Abort(m) => Err((hist, "process_aborted".into(), m)),
        };
    }
    Ok(hist)
}

pub fn child_dispatch(spec: &str) {
    if let Ok(path) = std::env::var("VCHECK_C05_REPLAY") {
        let cs = isolate::parse_spec(spec);
        let input = std::fs::read_to_string(path).unwrap_or_default();
        let facts = Facts::new();
        facts.set("x", Value::Integer(3));
        facts.set("Order.quantity", Value::Integer(2));
        facts.set("Order.price", Value::Number(1.5));
        set_arith_facts(&facts);
        isolate::child_loop(&cs, 8, |_k| {
            let mut panics = vec![];
            for s in 0..SUBJECTS.len() {
                let r = std::panic::catch_unwind(std::panic::AssertUnwindSafe(|| call(s, &input, &facts)));
                if r.is_err() {
                    panics.push(json!([s, crate::explore::take_panic()]));
                }
            }
            let p = !panics.is_empty();
            (json!({"p": panics, "slow": []}), p)
        });
    } else {
        child(spec);
    }
}
