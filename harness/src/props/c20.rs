//! C20 — restoring a checkpoint reproduces the state at checkpoint time; crashes never damage
//! earlier checkpoints (file backend, injected clock H1/H2, crash seam H2).
use crate::explore::{self, Config, Mismatch, System};
use crate::report::{hstr, Report};
use crate::{Opts, Tier};
use rust_rule_engine::streaming::state::{StateBackend, StateConfig, StateStore};
use rust_rule_engine::types::Value;
use rust_rule_engine::verif_hooks as hooks;
use serde_json::json;
use std::collections::BTreeMap;
use std::path::PathBuf;
use std::sync::atomic::{AtomicU64, Ordering};
use std::time::Duration;

static DIRSEQ: AtomicU64 = AtomicU64::new(0);
pub static CRASH_RUNS: AtomicU64 = AtomicU64::new(0);

fn scratch_root() -> PathBuf {
    let base = std::env::var("VCHECK_FAST_SCRATCH").or_else(|_| std::env::var("VCHECK_SCRATCH")).unwrap_or_else(|_| std::env::temp_dir().to_string_lossy().to_string());
    PathBuf::from(base)
}

thread_local! {
    // one parent directory per thread: creating/removing entries in a shared parent serialises on its lock
    static PARENT: PathBuf = {
        let p = scratch_root().join(format!("c20-{}-t{}", std::process::id(), DIRSEQ.fetch_add(1, Ordering::SeqCst)));
        let _ = std::fs::create_dir_all(&p);
        p
    };
}

fn new_dir() -> PathBuf {
    let d = PARENT.with(|p| p.join(format!("s{}", DIRSEQ.fetch_add(1, Ordering::SeqCst))));
    let _ = std::fs::remove_dir_all(&d);
    std::fs::create_dir_all(&d).expect("scratch dir");
    d
}

#[derive(Clone, Debug, PartialEq)]
pub enum Op {
    Put(&'static str, i64),
    PutTtl(&'static str, i64),
    Update(&'static str, i64),
    Delete(&'static str),
    Checkpoint,
    Restore(usize),
    Tick(u64),
    /// a clean restart: the store object is dropped and a new StateStore is opened on the same directory
    Reopen,
}

const TTL: u64 = 2;
const T0: u64 = 1_000_000;

#[derive(Clone, Debug)]
struct MEntry {
    v: i64,
    created: u64,
    ttl: Option<u64>,
}

#[derive(Clone, Debug)]
struct MCheckpoint {
    id: String,
    snapshot: BTreeMap<String, i64>,
    same_ms_as_previous: bool,
}

pub struct Sys {
    dir: PathBuf,
    store: Option<StateStore>,
    max_checkpoints: usize,
    keys: Vec<&'static str>,
    clock: u64,
    model: BTreeMap<String, MEntry>,
    cps: Vec<MCheckpoint>,
    retained: Vec<usize>,
    /// checkpoints retained by an earlier store instance: the current instance does not know them, nothing
    /// deletes them, so they stay restorable
    orphans: Vec<usize>,
    /// first checkpoint index of the current store instance
    instance_start: usize,
    /// checkpoints of an earlier instance that retention had deleted and whose id a later instance handed out again
    /// (a new process cannot know an id whose directory no longer exists): not restore targets any more
    superseded: Vec<usize>,
    reopen_letter: bool,
    last_checkpoint_clock: Option<u64>,
    ops: Vec<Op>,
    fault_injection: bool,
    max_restore_targets: usize,
}

impl Drop for Sys {
    fn drop(&mut self) {
        self.store = None;
        let _ = std::fs::remove_dir_all(&self.dir);
    }
}

fn mk_store(dir: &PathBuf, max_checkpoints: usize) -> StateStore {
    StateStore::with_config(StateConfig { backend: StateBackend::File { path: dir.clone() }, auto_checkpoint: false, checkpoint_interval: Duration::from_secs(60), max_checkpoints, enable_ttl: false, default_ttl: Duration::from_secs(3600) })
}

impl Sys {
    pub fn new(max_checkpoints: usize, nkeys: usize, fault_injection: bool) -> Self {
        let dir = new_dir();
        let store = mk_store(&dir, max_checkpoints);
        Sys { dir, store: Some(store), max_checkpoints, keys: ["k1", "k2", "k3"][..nkeys].to_vec(), clock: T0, model: BTreeMap::new(), cps: vec![], retained: vec![], orphans: vec![], instance_start: 0, superseded: vec![], reopen_letter: false, last_checkpoint_clock: None, ops: vec![], fault_injection, max_restore_targets: 3 }
    }
    pub fn with_reopen(mut self) -> Self {
        self.reopen_letter = true;
        self
    }
    fn reopen(&mut self) {
        self.store = None;
        self.store = Some(mk_store(&self.dir, self.max_checkpoints));
        self.model.clear();
        let r = std::mem::take(&mut self.retained);
        self.orphans.extend(r);
        self.instance_start = self.cps.len();
    }
    /// an id may be handed out again only if it belonged to a checkpoint of an earlier instance that no longer exists
    fn note_id(&mut self, id: &str) -> Option<usize> {
        let mut clash = None;
        for (j, c) in self.cps.iter().enumerate() {
            if c.id == id && !self.superseded.contains(&j) {
                if j >= self.instance_start || self.orphans.contains(&j) {
                    clash = Some(j);
                } else {
                    self.superseded.push(j);
                }
            }
        }
        clash
    }
    fn st(&mut self) -> &mut StateStore {
        self.store.as_mut().unwrap()
    }
    /// Some(true) live, Some(false) expired, None exactly at the boundary (left open by the statement)
    fn liveness(&self, e: &MEntry) -> Option<bool> {
        match e.ttl {
            None => Some(true),
            Some(t) => {
                if self.clock < e.created + t {
                    Some(true)
                } else if self.clock > e.created + t {
                    Some(false)
                } else {
                    None
                }
            }
        }
    }
    fn observe(&mut self) -> Result<BTreeMap<String, i64>, Mismatch> {
        hooks::set_clock_ms(Some(self.clock));
        let keys = self.keys.clone();
        let mut out = BTreeMap::new();
        for k in keys {
            let g = self.st().get(k).map_err(|e| Mismatch::new("get_failed", format!("get({}) = Err({:?})", k, e)))?;
            if let Some(v) = g {
                match v {
                    Value::Integer(i) => {
                        out.insert(k.to_string(), i);
                    }
                    other => return Err(Mismatch::new("value_corrupted", format!("get({}) = {:?}", k, other))),
                }
            }
            if self.st().contains(k) != out.contains_key(k) {
                return Err(Mismatch::new("views_disagree", format!("contains({}) disagrees with get", k)));
            }
        }
        let mut listed: Vec<String> = self.st().keys();
        listed.sort();
        let expect: Vec<String> = out.keys().cloned().collect();
        if listed != expect || self.st().len() != expect.len() {
            return Err(Mismatch::new("views_disagree", format!("keys() = {:?}, len() = {}, but get() finds {:?}", listed, self.st().len(), expect)));
        }
        Ok(out)
    }
    fn compare_with_model(&self, obs: &BTreeMap<String, i64>, what: &str) -> Result<(), Mismatch> {
        for k in &self.keys {
            let m = self.model.get(*k);
            let live = m.and_then(|e| self.liveness(e).map(|l| (l, e.v)));
            match (m, live) {
                (None, _) => {
                    if obs.contains_key(*k) {
                        return Err(Mismatch::new("state_differs_from_model", format!("{}: key {} present ({:?}) but it was never put / was deleted", what, k, obs.get(*k))));
                    }
                }
                (Some(_), None) => {
                    // TTL boundary: either answer; if present the value must be right
                    if let Some(v) = obs.get(*k) {
                        if *v != m.unwrap().v {
                            return Err(Mismatch::new("state_differs_from_model", format!("{}: key {} = {}, expected {}", what, k, v, m.unwrap().v)));
                        }
                    }
                }
                (Some(_), Some((true, v))) => {
                    if obs.get(*k) != Some(&v) {
                        return Err(Mismatch::new("state_differs_from_model", format!("{}: key {} = {:?}, expected {}", what, k, obs.get(*k), v)));
                    }
                }
                (Some(_), Some((false, _))) => {
                    if obs.contains_key(*k) {
                        return Err(Mismatch::new("expired_key_visible", format!("{}: key {} is still visible {} ms after its TTL of {} ms ran out", what, k, self.clock - m.unwrap().created - TTL, TTL)));
                    }
                }
            }
        }
        Ok(())
    }

    /// Apply one operation to a store + model without checking anything (used to rebuild the state
    /// in a fresh directory for crash injection).
    fn apply_unchecked(&mut self, op: &Op) {
        hooks::set_clock_ms(Some(self.clock));
        match op {
            Op::Put(k, v) => {
                let _ = self.st().put(*k, Value::Integer(*v));
                self.model.insert(k.to_string(), MEntry { v: *v, created: self.clock, ttl: None });
            }
            Op::PutTtl(k, v) => {
                let _ = self.st().put_with_ttl(*k, Value::Integer(*v), Duration::from_millis(TTL));
                self.model.insert(k.to_string(), MEntry { v: *v, created: self.clock, ttl: Some(TTL) });
            }
            Op::Update(k, v) => {
                if self.st().update(k, Value::Integer(*v)).is_ok() {
                    if let Some(e) = self.model.get_mut(*k) {
                        e.v = *v;
                    }
                }
            }
            Op::Delete(k) => {
                let _ = self.st().delete(k);
                self.model.remove(*k);
            }
            Op::Checkpoint => {
                let snap = self.observe().unwrap_or_default();
                hooks::set_clock_ms(Some(self.clock));
                if let Ok(id) = self.st().checkpoint("cp") {
                    let _ = self.note_id(&id);
                    self.cps.push(MCheckpoint { id, snapshot: snap, same_ms_as_previous: self.last_checkpoint_clock == Some(self.clock) });
                    self.retained.push(self.cps.len() - 1);
                    if self.retained.len() > self.max_checkpoints {
                        self.retained.remove(0);
                    }
                    self.last_checkpoint_clock = Some(self.clock);
                }
            }
            Op::Restore(i) => {
                let id = self.cps[*i].id.clone();
                if self.st().restore(&id).is_ok() {
                    let snap = self.cps[*i].snapshot.clone();
                    self.model = snap.into_iter().map(|(k, v)| (k, MEntry { v, created: self.clock, ttl: None })).collect();
                }
            }
            Op::Tick(d) => self.clock += d,
            Op::Reopen => self.reopen(),
        }
        hooks::set_clock_ms(None);
    }

    /// FI: the checkpoint about to be taken is interrupted at every labelled point and after every
    /// byte prefix of its file; recovery happens in a *new* store on the same directory.
    fn inject_crashes(&self, interrupted_id: &str, new_snapshot: &BTreeMap<String, i64>, labels: &[String]) -> Result<(), Mismatch> {
        let mut plans: Vec<(String, usize)> = vec![];
        for l in labels {
            if let Some((name, len)) = l.rsplit_once(':').and_then(|(n, x)| x.parse::<usize>().ok().map(|x| (n.to_string(), x))) {
                for off in 0..=len {
                    plans.push((name.clone(), off));
                }
            } else {
                plans.push((l.clone(), 0));
            }
        }
        for plan in plans {
            CRASH_RUNS.fetch_add(1, Ordering::Relaxed);
            // rebuild the pre-checkpoint state in a fresh directory by replaying the history
            let mut s = Sys::new(self.max_checkpoints, self.keys.len(), false);
            s.reopen_letter = self.reopen_letter;
            for op in &self.ops {
                s.apply_unchecked(op);
            }
            hooks::set_clock_ms(Some(s.clock));
            hooks::set_crash_plan(Some(plan.clone()));
            let mut store = s.store.take().unwrap();
            let r = std::panic::catch_unwind(std::panic::AssertUnwindSafe(|| store.checkpoint("cp")));
            hooks::set_crash_plan(None);
            let _ = hooks::take_crash_log();
            if r.is_ok() {
                hooks::set_clock_ms(None);
                return Err(Mismatch::new("crash_plan_not_reached", format!("MACHINERY-like: crash plan {:?} was armed but checkpoint completed", plan)));
            }
            let _ = explore::take_panic();
            drop(store); // the process "died": all in-memory state is gone
            let mut fresh = mk_store(&s.dir, self.max_checkpoints);
            let keys = self.keys.clone();
            let read = |st: &StateStore| -> BTreeMap<String, i64> {
                let mut m = BTreeMap::new();
                for k in &keys {
                    if let Ok(Some(Value::Integer(i))) = st.get(k) {
                        m.insert(k.to_string(), i);
                    }
                }
                m
            };
            // earlier checkpoints are undamaged
            let would_drop: Option<usize> = if s.retained.len() + 1 > self.max_checkpoints { s.retained.first().copied() } else { None };
            let earlier: Vec<usize> = s.orphans.iter().chain(s.retained.iter()).copied().collect();
            let mut retention_victim_gone = false;
            for &j in &earlier {
                let cp = &s.cps[j];
                if cp.id == interrupted_id {
                    continue; // id collision is reported by the history oracle
                }
                let r = fresh.restore(&cp.id);
                match r {
                    Ok(()) => {
                        let got = read(&fresh);
                        if got != cp.snapshot {
                            hooks::set_clock_ms(None);
                            return Err(Mismatch::new("crash_damaged_earlier_checkpoint", format!("crash at {:?} while writing {}: restore({}) = {:?}, expected {:?}", plan, interrupted_id, cp.id, got, cp.snapshot)));
                        }
                    }
                    Err(e) => {
                        if Some(j) != would_drop {
                            hooks::set_clock_ms(None);
                            return Err(Mismatch::new("crash_damaged_earlier_checkpoint", format!("crash at {:?} while writing {}: restore({}) fails: {:?}", plan, interrupted_id, cp.id, e)));
                        }
                        retention_victim_gone = true;
                    }
                }
            }
            // the interrupted checkpoint: complete or error, never partial
            let mut interrupted_complete = false;
            if !s.cps.iter().any(|c| c.id == interrupted_id) {
                if let Ok(()) = fresh.restore(interrupted_id) {
                    let got = read(&fresh);
                    if got != *new_snapshot {
                        hooks::set_clock_ms(None);
                        return Err(Mismatch::new("partial_checkpoint_restored", format!("crash at {:?}: restore({}) succeeded with {:?}, the complete state is {:?}", plan, interrupted_id, got, new_snapshot)));
                    }
                    interrupted_complete = true;
                }
            }
            // retention may drop the oldest checkpoint only as a consequence of the new one: if the interrupted
            // checkpoint cannot be restored, nothing that could be restored before the call may be missing
            if retention_victim_gone && !interrupted_complete && !s.cps.iter().any(|c| c.id == interrupted_id) {
                hooks::set_clock_ms(None);
                return Err(Mismatch::new("crash_damaged_earlier_checkpoint", format!("crash at {:?} while writing {}: the oldest checkpoint {} was already removed by retention although {} is not restorable — one restorable checkpoint fewer than before the call", plan, interrupted_id, would_drop.map(|j| s.cps[j].id.clone()).unwrap_or_default(), interrupted_id)));
            }
            // "... whatever is checkpointed afterwards": the recovered process takes a checkpoint of a different
            // state within the same millisecond; every earlier checkpoint must still restore to its own state
            let _ = fresh.put(keys[0], Value::Integer(77));
            let mut after = BTreeMap::new();
            for k in &keys {
                if let Ok(Some(Value::Integer(i))) = fresh.get(k) {
                    after.insert(k.to_string(), i);
                }
            }
            if let Ok(id2) = fresh.checkpoint("after-crash") {
                // (the id of a checkpoint that retention had already deleted when the process died is unknown to the
                //  recovered process and may be handed out again, as after any restart)
                if earlier.iter().any(|&j| s.cps[j].id == id2 && !(retention_victim_gone && Some(j) == would_drop)) || (interrupted_complete && id2 == interrupted_id) {
                    hooks::set_clock_ms(None);
                    return Err(Mismatch::new("checkpoint_ids_collide", format!("crash at {:?} while writing {}; the checkpoint taken after recovery got id {} which an earlier checkpoint already carries", plan, interrupted_id, id2)));
                }
                for &j in &earlier {
                    let cp = &s.cps[j];
                    if cp.id == interrupted_id || Some(j) == would_drop {
                        continue;
                    }
                    let ok = fresh.restore(&cp.id).is_ok() && read(&fresh) == cp.snapshot;
                    if !ok {
                        hooks::set_clock_ms(None);
                        return Err(Mismatch::new("later_checkpoint_damaged_earlier_one", format!("crash at {:?} while writing {}, then checkpoint {} of state {:?} after recovery: restore({}) no longer gives {:?}", plan, interrupted_id, id2, after, cp.id, cp.snapshot)));
                    }
                }
            }
            hooks::set_clock_ms(None);
        }
        Ok(())
    }
}

impl System for Sys {
    type Op = Op;
    fn enabled(&self) -> Vec<Op> {
        let mut v = vec![];
        for k in &self.keys {
            v.push(Op::Put(k, 1));
        }
        v.push(Op::Put(self.keys[0], 2));
        v.push(Op::PutTtl(self.keys[0], 1));
        v.push(Op::Update(self.keys[0], 2));
        v.push(Op::Delete(self.keys[0]));
        v.push(Op::Checkpoint);
        let n = self.cps.len();
        for i in n.saturating_sub(self.max_restore_targets)..n {
            if !self.superseded.contains(&i) {
                v.push(Op::Restore(i));
            }
        }
        v.push(Op::Tick(1));
        v.push(Op::Tick(2));
        v.push(Op::Tick(3));
        if self.reopen_letter {
            v.push(Op::Reopen);
        }
        v
    }
    fn step(&mut self, op: &Op) -> Result<u64, Mismatch> {
        hooks::set_clock_ms(Some(self.clock));
        let r = self.step_inner(op);
        hooks::set_clock_ms(None);
        hooks::set_crash_plan(None);
        if r.is_ok() {
            self.ops.push(op.clone());
        }
        r
    }
    fn kind(op: &Op) -> String {
        match op {
            Op::Put(..) => "put",
            Op::PutTtl(..) => "put_with_ttl",
            Op::Update(..) => "update",
            Op::Delete(_) => "delete",
            Op::Checkpoint => "checkpoint",
            Op::Restore(_) => "restore",
            Op::Tick(_) => "clock_advance",
            Op::Reopen => "reopen_store",
        }
        .to_string()
    }
    fn model_state(&self) -> u64 {
        hstr(&format!("{:?}|{}|{:?}|{:?}", self.model, self.clock - T0, self.cps.iter().map(|c| (&c.snapshot, c.same_ms_as_previous)).collect::<Vec<_>>(), (&self.retained, &self.orphans, &self.superseded)))
    }
}

impl Sys {
    fn step_inner(&mut self, op: &Op) -> Result<u64, Mismatch> {
        match op {
            Op::Put(k, v) => {
                self.st().put(*k, Value::Integer(*v)).map_err(|e| Mismatch::new("put_failed", format!("{:?}", e)))?;
                self.model.insert(k.to_string(), MEntry { v: *v, created: self.clock, ttl: None });
            }
            Op::PutTtl(k, v) => {
                self.st().put_with_ttl(*k, Value::Integer(*v), Duration::from_millis(TTL)).map_err(|e| Mismatch::new("put_failed", format!("{:?}", e)))?;
                self.model.insert(k.to_string(), MEntry { v: *v, created: self.clock, ttl: Some(TTL) });
            }
            Op::Update(k, v) => {
                let r = self.st().update(k, Value::Integer(*v));
                let live = self.model.get(*k).map(|e| self.liveness(e));
                match (live, &r) {
                    (None, Ok(())) => return Err(Mismatch::new("update_of_missing_key_succeeded", format!("update({}) succeeded on a missing key", k))),
                    (Some(Some(false)), Ok(())) => return Err(Mismatch::new("update_of_expired_key_succeeded", format!("update({}) succeeded on an expired key", k))),
                    (Some(Some(true)), Err(e)) => return Err(Mismatch::new("update_of_live_key_failed", format!("update({}) = Err({:?})", k, e))),
                    _ => {}
                }
                if r.is_ok() {
                    if let Some(e) = self.model.get_mut(*k) {
                        e.v = *v;
                    }
                }
            }
            Op::Delete(k) => {
                self.st().delete(k).map_err(|e| Mismatch::new("delete_failed", format!("{:?}", e)))?;
                self.model.remove(*k);
            }
            Op::Tick(d) => {
                self.clock += d;
            }
            Op::Reopen => {
                self.reopen();
            }
            Op::Checkpoint => {
                let snap = self.observe()?;
                self.compare_with_model(&snap, "before checkpoint")?;
                hooks::set_clock_ms(Some(self.clock));
                let _ = hooks::take_crash_log();
                let id = self.st().checkpoint("cp").map_err(|e| Mismatch::new("checkpoint_failed", format!("{:?}", e)))?;
                let labels = hooks::take_crash_log();
                let same_ms = self.last_checkpoint_clock == Some(self.clock);
                let tags: Vec<&str> = if same_ms { vec!["two_checkpoints_same_ms"] } else { vec![] };
                if let Some(j) = self.note_id(&id) {
                    return Err(Mismatch::tagged("checkpoint_ids_collide", format!("checkpoint returned id {} which an earlier checkpoint (snapshot {:?}) that {} already carries", id, self.cps[j].snapshot, if j >= self.instance_start { "this store instance took" } else { "is still on disk" }), &tags));
                }
                if self.fault_injection {
                    self.inject_crashes(&id, &snap, &labels)?;
                    hooks::set_clock_ms(Some(self.clock));
                }
                self.cps.push(MCheckpoint { id, snapshot: snap, same_ms_as_previous: same_ms });
                self.retained.push(self.cps.len() - 1);
                if self.retained.len() > self.max_checkpoints {
                    self.retained.remove(0);
                }
                self.last_checkpoint_clock = Some(self.clock);
                let listed: Vec<String> = self.st().list_checkpoints().iter().map(|c| c.id.clone()).collect();
                let expect: Vec<String> = self.retained.iter().map(|&i| self.cps[i].id.clone()).collect();
                if listed != expect {
                    return Err(Mismatch::tagged("checkpoint_list_differs", format!("list_checkpoints() = {:?}, expected the {} most recent: {:?}", listed, self.max_checkpoints, expect), &tags));
                }
            }
            Op::Restore(i) => {
                let cp = self.cps[*i].clone();
                let retained = self.retained.contains(i) || self.orphans.contains(i);
                let collided = self.cps.iter().enumerate().any(|(j, c)| j != *i && c.id == cp.id && !self.superseded.contains(&j));
                let tags: Vec<&str> = if collided || self.cps.iter().any(|c| c.same_ms_as_previous) { vec!["two_checkpoints_same_ms"] } else { vec![] };
                let r = self.st().restore(&cp.id);
                match r {
                    Err(e) => {
                        if retained {
                            return Err(Mismatch::tagged("restore_of_retained_checkpoint_failed", format!("restore({}) = Err({:?}) although the checkpoint is among the {} retained ones", cp.id, e, self.max_checkpoints), &tags));
                        }
                    }
                    Ok(()) => {
                        let got = self.observe()?;
                        if got != cp.snapshot {
                            return Err(Mismatch::tagged("restore_differs_from_checkpoint_state", format!("restore({}) gives {:?}, the store held {:?} when that checkpoint was taken", cp.id, got, cp.snapshot), &tags));
                        }
                        self.model = cp.snapshot.iter().map(|(k, v)| (k.clone(), MEntry { v: *v, created: self.clock, ttl: None })).collect();
                    }
                }
            }
        }
        let obs = self.observe()?;
        self.compare_with_model(&obs, &format!("after {:?}", op))?;
        Ok(hstr(&format!("{:?}", obs)))
    }
}

pub fn run(opts: &Opts) -> Vec<Report> {
    let mut out = vec![];
    let plan: Vec<(&str, usize, usize, usize, bool)> = match opts.tier {
        Tier::Quick => vec![("store_histories_max10_len6", 10, 2, 6, false), ("store_histories_max2_len6", 2, 1, 6, false), ("restart_histories_max2_len6", 2, 1, 6, false), ("crash_injection_len4", 2, 2, 4, true)],
        Tier::Thorough => vec![("store_histories_max10_len7", 10, 2, 7, false), ("store_histories_max2_len7", 2, 1, 7, false), ("restart_histories_max2_len7", 2, 1, 7, false), ("crash_injection_len5", 2, 2, 5, true)],
    };
    for (name, maxcp, nkeys, depth, fi) in plan {
        if !crate::props::wants(opts, name) {
            continue;
        }
        let mut cfg = Config::new(name, depth);
        let reopen = name.starts_with("restart");
        cfg.ctx = json!({"max_checkpoints": maxcp, "keys": nkeys, "fault_injection": fi, "reopen": reopen});
        cfg.expected_letters = ["put", "put_with_ttl", "update", "delete", "checkpoint", "restore", "clock_advance"].iter().map(|s| s.to_string()).collect();
        if reopen {
            cfg.expected_letters.push("reopen_store".into());
        }
        CRASH_RUNS.store(0, Ordering::SeqCst);
        let mut r = explore::explore(&move || if reopen { Sys::new(maxcp, nkeys, fi).with_reopen() } else { Sys::new(maxcp, nkeys, fi) }, &cfg);
        if fi {
            let n = CRASH_RUNS.load(Ordering::SeqCst);
            r.count("crash_points", n);
            r.count("evaluations", n);
            r.count("nontrivial", n);
            if n == 0 {
                r.notes.push("VACUITY: no crash point was injected".into());
            }
            r.bound = format!("every checkpoint step of every history of length <= {}: every labelled crash point and every byte prefix 0..=len of the checkpoint file, then recovery in a new store on the same directory (restore of every earlier and of the interrupted checkpoint), then a further checkpoint of a different state in the same millisecond and restore of every earlier checkpoint again", depth);
        } else {
            r.bound = format!("all histories of length <= {} over put / put_with_ttl(2 ms) / update / delete / checkpoint / restore(any of the last 3 ids) / clock +1, +2, +3 (no tick between two checkpoints = same millisecond){}; max_checkpoints {}", depth, if reopen { " / restart (drop the store, open a new one on the same directory)" } else { "" }, maxcp);
        }
        out.push(r);
    }
    out
}

pub fn replay(case: &serde_json::Value) -> crate::props::ReplayResult {
    let maxcp = case["ctx"]["max_checkpoints"].as_u64().unwrap_or(10) as usize;
    let nkeys = case["ctx"]["keys"].as_u64().unwrap_or(2) as usize;
    let fi = case["ctx"]["fault_injection"].as_bool().unwrap_or(false);
    let ch = crate::props::choices_of(case);
    let reopen = case["ctx"]["reopen"].as_bool().unwrap_or(false);
    crate::props::conv(explore::replay(&move || if reopen { Sys::new(maxcp, nkeys, fi).with_reopen() } else { Sys::new(maxcp, nkeys, fi) }, &ch))
}
