//! C04 — parsing GRL yields exactly the rules that were written.
//! A generator of (expected AST, text) pairs from the documented grammar; every dimension exhaustive on
//! its own and pairwise with every other; files of 0..8 rules. Full structural comparison after two
//! normalisations (flattened same-operator chains; expressions compared as token sequences).
use crate::report::{hstr, Report, Violation};
use crate::{Opts, Tier};
use rust_rule_engine::engine::rule::{ConditionExpression, ConditionGroup, Rule};
use rust_rule_engine::parser::grl::GRLParser;
use rust_rule_engine::types::{ActionType, LogicalOperator, Operator, Value};
use serde_json::json;
use std::collections::{BTreeMap, BTreeSet};
use std::sync::atomic::{AtomicUsize, Ordering};
use std::time::Instant;

// ------------------------------------------------------------------------------------------------
// normalised AST (what is compared)

fn strip_ws(s: &str) -> String {
    s.chars().filter(|c| !c.is_whitespace()).collect()
}

fn nvalue(v: &Value) -> String {
    match v {
        Value::String(s) => format!("Str({:?})", s),
        Value::Integer(i) => format!("Int({})", i),
        Value::Number(f) => format!("Float({})", f),
        Value::Boolean(b) => format!("Bool({})", b),
        Value::Null => "Null".into(),
        Value::Array(a) => format!("Arr[{}]", a.iter().map(nvalue).collect::<Vec<_>>().join(",")),
        Value::Expression(e) => format!("Expr({})", strip_ws(e)),
        Value::Object(o) => format!("Obj({})", o.len()),
    }
}

fn nop(o: &Operator) -> &'static str {
    match o {
        Operator::Equal => "==",
        Operator::NotEqual => "!=",
        Operator::GreaterThan => ">",
        Operator::GreaterThanOrEqual => ">=",
        Operator::LessThan => "<",
        Operator::LessThanOrEqual => "<=",
        Operator::Contains => "contains",
        Operator::NotContains => "not_contains",
        Operator::StartsWith => "startsWith",
        Operator::EndsWith => "endsWith",
        Operator::Matches => "matches",
        Operator::In => "in",
    }
}

fn ncond(c: &ConditionGroup) -> String {
    fn flat(c: &ConditionGroup, op: &LogicalOperator, out: &mut Vec<String>) {
        match c {
            ConditionGroup::Compound { left, operator, right } if operator == op => {
                flat(left, op, out);
                flat(right, op, out);
            }
            other => out.push(ncond(other)),
        }
    }
    match c {
        ConditionGroup::Single(cond) => match &cond.expression {
            ConditionExpression::Field(f) => format!("Atom({} {} {})", f, nop(&cond.operator), nvalue(&cond.value)),
            ConditionExpression::Test { name, args } => format!("Test({}{})", strip_ws(name), if args.is_empty() { String::new() } else { format!(";{:?}", args) }),
            ConditionExpression::FunctionCall { name, args } => format!("Call({}({:?}) {} {})", name, args, nop(&cond.operator), nvalue(&cond.value)),
            ConditionExpression::MultiField { field, operation, variable } => format!("Multi({} {} {:?} {} {})", field, operation, variable, nop(&cond.operator), nvalue(&cond.value)),
        },
        ConditionGroup::Compound { operator, .. } => {
            let mut parts = vec![];
            flat(c, operator, &mut parts);
            format!("{}[{}]", match operator { LogicalOperator::And => "And", LogicalOperator::Or => "Or", LogicalOperator::Not => "NotOp" }, parts.join(", "))
        }
        ConditionGroup::Not(x) => format!("Not[{}]", ncond(x)),
        ConditionGroup::Exists(x) => format!("Exists[{}]", ncond(x)),
        ConditionGroup::Forall(x) => format!("Forall[{}]", ncond(x)),
        other => format!("Other({:?})", other),
    }
}

fn naction(a: &ActionType) -> String {
    match a {
        ActionType::Set { field, value } => format!("Set({} = {})", field, nvalue(value)),
        ActionType::Append { field, value } => format!("Append({} += {})", field, nvalue(value)),
        ActionType::Log { message } => format!("Log({:?})", message),
        ActionType::Retract { object } => format!("Retract({})", object),
        ActionType::ActivateAgendaGroup { group } => format!("ActivateAgendaGroup({:?})", group),
        ActionType::ScheduleRule { rule_name, delay_ms } => format!("ScheduleRule({}, {:?})", delay_ms, rule_name),
        ActionType::CompleteWorkflow { workflow_name } => format!("CompleteWorkflow({:?})", workflow_name),
        ActionType::SetWorkflowData { key, value } => format!("SetWorkflowData({:?}, {})", key, nvalue(value)),
        ActionType::Custom { action_type, params } => {
            let p: BTreeMap<&String, String> = params.iter().map(|(k, v)| (k, nvalue(v))).collect();
            format!("Custom({}, {:?})", action_type, p)
        }
        ActionType::MethodCall { object, method, args } => format!("MethodCall({}.{}({}))", object, method, args.iter().map(nvalue).collect::<Vec<_>>().join(",")),
    }
}

pub fn nrule(r: &Rule) -> String {
    format!(
        "name={:?} salience={} no_loop={} lock_on_active={} agenda={:?} activation={:?} effective={:?} expires={:?} enabled={}\n  when {}\n  then {}",
        r.name,
        r.salience,
        r.no_loop,
        r.lock_on_active,
        r.agenda_group,
        r.activation_group,
        r.date_effective.map(|d| d.to_rfc3339()),
        r.date_expires.map(|d| d.to_rfc3339()),
        r.enabled,
        ncond(&r.conditions),
        r.actions.iter().map(naction).collect::<Vec<_>>().join("; ")
    )
}

// ------------------------------------------------------------------------------------------------
// generator

#[derive(Clone, Debug)]
struct Piece {
    text: String,
    expect: String,
    tags: Vec<&'static str>,
}

fn p(text: &str, expect: &str) -> Piece {
    Piece { text: text.to_string(), expect: expect.to_string(), tags: vec![] }
}
fn pt(text: &str, expect: &str, tags: &[&'static str]) -> Piece {
    Piece { text: text.to_string(), expect: expect.to_string(), tags: tags.to_vec() }
}

fn names() -> Vec<Piece> {
    vec![
        p("\"N\"", "N"),
        p("\"two words\"", "two words"),
        pt("\"rule when then\"", "rule when then", &["name_has_keywords"]),
        pt("\"salience 5\"", "salience 5", &["name_has_keywords"]),
        pt("\"é名\"", "é名", &["non_ascii"]),
        pt("\"a {b} c\"", "a {b} c", &["name_has_brace"]),
        p("Bare_1", "Bare_1"),
        pt("\"Tier  1 -  gold\"", "Tier  1 -  gold", &["name_has_blank_run"]),
        pt("\"a\tb\"", "a\tb", &["name_has_tab"]),
    ]
}

#[derive(Clone, Debug)]
struct Attr {
    text: String,
    key: &'static str,
    val: String,
}

fn attr_pool() -> Vec<Attr> {
    let a = |text: &str, key: &'static str, val: &str| Attr { text: text.to_string(), key, val: val.to_string() };
    vec![
        a("salience 10", "salience", "10"),
        a("no-loop", "no_loop", "true"),
        a("lock-on-active", "loa", "true"),
        a("agenda-group \"grp one\"", "agenda", "grp one"),
        a("activation-group \"act\"", "activation", "act"),
        a("date-effective \"2025-01-01\"", "effective", "2025-01-01T00:00:00+00:00"),
        a("date-expires \"2026-06-30T12:00:00Z\"", "expires", "2026-06-30T12:00:00+00:00"),
    ]
}

fn attr_variants() -> Vec<Attr> {
    let a = |text: &str, key: &'static str, val: &str| Attr { text: text.to_string(), key, val: val.to_string() };
    vec![
        a("no-loop true", "no_loop", "true"),
        a("lock-on-active true", "loa", "true"),
        a("salience -1", "salience", "-1"),
        a("salience 0", "salience", "0"),
        a("salience 1", "salience", "1"),
        a("salience -1000", "salience", "-1000"),
        a("salience 2147483647", "salience", "2147483647"),
        a("salience -2147483648", "salience", "-2147483648"),
        a("agenda-group \"salience 9\"", "agenda", "salience 9"),
        a("agenda-group \"no-loop\"", "agenda", "no-loop"),
        a("activation-group \"lock-on-active\"", "activation", "lock-on-active"),
        a("agenda-group \"é\"", "agenda", "é"),
        a("agenda-group \"phase  2\"", "agenda", "phase  2"),
        a("agenda-group \"a{b\"", "agenda", "a{b"),
        a("activation-group \"a}b\"", "activation", "a}b"),
    ]
}

fn permutations<T: Clone>(v: &[T]) -> Vec<Vec<T>> {
    if v.len() <= 1 {
        return vec![v.to_vec()];
    }
    let mut out = vec![];
    for i in 0..v.len() {
        let mut rest = v.to_vec();
        let x = rest.remove(i);
        for mut p in permutations(&rest) {
            p.insert(0, x.clone());
            out.push(p);
        }
    }
    out
}

/// attribute subsets x orders: all permutations for <= `full` attributes, rotations above
fn attr_lists(full: usize) -> Vec<Vec<Attr>> {
    let pool = attr_pool();
    let n = pool.len();
    let mut out = vec![];
    for mask in 0u32..(1 << n) {
        let subset: Vec<Attr> = (0..n).filter(|i| mask & (1 << i) != 0).map(|i| pool[i].clone()).collect();
        if subset.len() <= full {
            out.extend(permutations(&subset));
        } else {
            for r in 0..subset.len() {
                let mut s = subset.clone();
                s.rotate_left(r);
                out.push(s);
            }
        }
    }
    for v in attr_variants() {
        out.push(vec![v.clone()]);
        // each variant next to every pool attribute of another key, both orders
        for q in &pool {
            if q.key != v.key {
                out.push(vec![v.clone(), q.clone()]);
                out.push(vec![q.clone(), v.clone()]);
            }
        }
    }
    out
}

fn strings() -> Vec<(&'static str, Vec<&'static str>)> {
    vec![
        ("plain", vec![]),
        ("", vec![]),
        ("a b", vec![]),
        (";", vec!["str_has_semicolon"]),
        ("p;q", vec!["str_has_semicolon"]),
        ("&&", vec!["str_has_and"]),
        ("p && q", vec!["str_has_and"]),
        ("||", vec!["str_has_or"]),
        ("}", vec!["str_has_rbrace"]),
        ("{", vec!["str_has_lbrace"]),
        ("//", vec!["str_has_slashslash"]),
        ("http://x", vec!["str_has_slashslash"]),
        ("then", vec!["str_has_then"]),
        (" then ", vec!["str_has_then"]),
        ("when x", vec!["str_has_when"]),
        ("é", vec!["non_ascii"]),
        ("日本語", vec!["non_ascii"]),
        ("'", vec!["str_has_single_quote"]),
        ("a=b", vec!["str_has_eq"]),
        ("x += y", vec!["str_has_pluseq"]),
        ("(", vec!["str_has_paren"]),
        (")", vec!["str_has_paren"]),
        ("a, b", vec!["str_has_comma"]),
        ("rule x {", vec!["str_has_rule_kw"]),
        ("/* c */", vec!["str_has_block_comment"]),
        ("5", vec![]),
        ("true", vec![]),
        ("F.a", vec!["str_is_field_name"]),
        ("it's broken", vec!["str_has_single_quote"]),
        ("a'b, c", vec!["str_has_single_quote", "str_has_comma"]),
        ("[", vec!["str_has_bracket"]),
        ("a], [b", vec!["str_has_bracket", "str_has_comma"]),
        ("a  b", vec!["str_has_blank_run"]),
        (" lead and trail ", vec!["str_has_blank_run"]),
        ("a\tb", vec!["str_has_tab"]),
        ("50\u{a0}%", vec!["str_has_nbsp", "non_ascii"]),
        ("f(x) > 2", vec!["str_looks_like_call"]),
        ("x(y)", vec!["str_looks_like_call"]),
        ("a{b", vec!["str_has_lbrace"]),
    ]
}

fn atoms() -> Vec<Piece> {
    let mut v = vec![
        p("F.a == 1", "Atom(F.a == Int(1))"),
        p("F.a != -2", "Atom(F.a != Int(-2))"),
        p("G.c >= 2.5", "Atom(G.c >= Float(2.5))"),
        p("G.c <= 0.0", "Atom(G.c <= Float(0))"),
        p("F.a > 0", "Atom(F.a > Int(0))"),
        p("F.a < 10", "Atom(F.a < Int(10))"),
        p("F.b == true", "Atom(F.b == Bool(true))"),
        p("F.b != false", "Atom(F.b != Bool(false))"),
        p("F.zz == null", "Atom(F.zz == Null)"),
        p("F.s == \"x\"", "Atom(F.s == Str(\"x\"))"),
        p("F.s contains \"lo\"", "Atom(F.s contains Str(\"lo\"))"),
        p("F.s startsWith \"he\"", "Atom(F.s startsWith Str(\"he\"))"),
        p("F.s endsWith \"lo\"", "Atom(F.s endsWith Str(\"lo\"))"),
        p("F.i in [1, 2, 3]", "Atom(F.i in Arr[Int(1),Int(2),Int(3)])"),
        p("F.s in [\"a\", \"b\"]", "Atom(F.s in Arr[Str(\"a\"),Str(\"b\")])"),
        p("F.a == F.b", "Atom(F.a == Expr(F.b))"),
        p("F.a > limit", "Atom(F.a > Expr(limit))"),
        p("F.n.k == 7", "Atom(F.n.k == Int(7))"),
        p("flat == 3", "Atom(flat == Int(3))"),
        p("when_field == 1", "Atom(when_field == Int(1))"),
        p("F.then == 1", "Atom(F.then == Int(1))"),
        p("F.a + 1 > 2", "Test(F.a+1>2)"),
        p("F.a % 3 == 0", "Test(F.a%3==0)"),
        p("F.a * 2 >= F.b", "Test(F.a*2>=F.b)"),
        p("(F.a - F.b) * 2 > 4", "Test((F.a-F.b)*2>4)"),
        p("F.a==1", "Atom(F.a == Int(1))"),
        // identifier shapes: underscores and digits in every segment position
        p("F._id == 5", "Atom(F._id == Int(5))"),
        p("_u.x == 1", "Atom(_u.x == Int(1))"),
        p("F.n._v >= 2", "Atom(F.n._v >= Int(2))"),
        p("F.a_b == 1", "Atom(F.a_b == Int(1))"),
        p("F.x9._y8 != 1", "Atom(F.x9._y8 != Int(1))"),
        p("first_name_ == 1", "Atom(first_name_ == Int(1))"),
        p("F.A1 < 3", "Atom(F.A1 < Int(3))"),
    ];
    for (s, tags) in strings() {
        let mut piece = p(&format!("F.s == \"{}\"", s), &format!("Atom(F.s == Str({:?}))", s));
        piece.tags = tags.clone();
        piece.tags.push("string_in_condition");
        v.push(piece);
        // the same content as an element of an array literal (followed by another element)
        let mut piece = p(&format!("F.s in [\"{}\", \"z\"]", s), &format!("Atom(F.s in Arr[Str({:?}),Str(\"z\")])", s));
        piece.tags = tags.clone();
        piece.tags.push("string_in_array");
        v.push(piece);
    }
    // single-quoted strings (GRL_SYNTAX.md: String: "text", 'text')
    for (text, content) in [("'plain'", "plain"), ("'say \"hi\"'", "say \"hi\""), ("'5\" pipe, steel'", "5\" pipe, steel"), ("'a && b'", "a && b")] {
        let mut piece = p(&format!("F.s == {}", text), &format!("Atom(F.s == Str({:?}))", content));
        piece.tags = vec!["single_quoted_string", "string_in_condition"];
        v.push(piece);
        let mut piece = p(&format!("F.s in [{}, \"ok\", 7]", text), &format!("Atom(F.s in Arr[Str({:?}),Str(\"ok\"),Int(7)])", content));
        piece.tags = vec!["single_quoted_string", "string_in_array"];
        v.push(piece);
    }
    v
}

#[derive(Clone, Debug)]
enum CT {
    Leaf(usize),
    Not(Box<CT>),
    And(Box<CT>, Box<CT>),
    Or(Box<CT>, Box<CT>),
}

impl CT {
    fn prec(&self) -> u8 {
        match self {
            CT::Or(..) => 1,
            CT::And(..) => 2,
            _ => 3,
        }
    }
    fn text(&self, atoms: &[Piece], full: bool) -> String {
        match self {
            CT::Leaf(i) => atoms[*i].text.clone(),
            CT::Not(x) => format!("!({})", x.text(atoms, full)),
            CT::And(a, b) | CT::Or(a, b) => {
                let op = if matches!(self, CT::And(..)) { "&&" } else { "||" };
                let wrap = |c: &CT, right: bool| {
                    let t = c.text(atoms, full);
                    let bin = matches!(c, CT::And(..) | CT::Or(..));
                    if bin && (full || c.prec() < self.prec() || (right && c.prec() == self.prec())) {
                        format!("({})", t)
                    } else {
                        t
                    }
                };
                format!("{} {} {}", wrap(a, false), op, wrap(b, true))
            }
        }
    }
    fn expect(&self, atoms: &[Piece]) -> String {
        fn flat(c: &CT, and: bool, atoms: &[Piece], out: &mut Vec<String>) {
            match (c, and) {
                (CT::And(a, b), true) | (CT::Or(a, b), false) => {
                    flat(a, and, atoms, out);
                    flat(b, and, atoms, out);
                }
                _ => out.push(c.expect(atoms)),
            }
        }
        match self {
            CT::Leaf(i) => atoms[*i].expect.clone(),
            CT::Not(x) => format!("Not[{}]", x.expect(atoms)),
            CT::And(..) => {
                let mut v = vec![];
                flat(self, true, atoms, &mut v);
                format!("And[{}]", v.join(", "))
            }
            CT::Or(..) => {
                let mut v = vec![];
                flat(self, false, atoms, &mut v);
                format!("Or[{}]", v.join(", "))
            }
        }
    }
    fn tags(&self, atoms: &[Piece], out: &mut Vec<&'static str>) {
        match self {
            CT::Leaf(i) => out.extend(atoms[*i].tags.iter()),
            CT::Not(x) => x.tags(atoms, out),
            CT::And(a, b) | CT::Or(a, b) => {
                a.tags(atoms, out);
                b.tags(atoms, out);
            }
        }
    }
}

/// condition trees over leaf *slots* 0..k (shapes), filled with atoms by the caller
fn shapes(leaves: usize, next: &mut usize) -> Vec<CT> {
    fn gen(leaves: usize) -> Vec<CT> {
        let mut base = vec![];
        if leaves == 1 {
            base.push(CT::Leaf(0));
        } else {
            for k in 1..leaves {
                for a in gen(k) {
                    for b in gen(leaves - k) {
                        base.push(CT::And(Box::new(a.clone()), Box::new(b.clone())));
                        base.push(CT::Or(Box::new(a.clone()), Box::new(b.clone())));
                    }
                }
            }
        }
        let mut out = base.clone();
        for b in base {
            out.push(CT::Not(Box::new(b)));
        }
        out
    }
    let _ = next;
    // renumber leaves left to right
    fn renum(c: &CT, n: &mut usize) -> CT {
        match c {
            CT::Leaf(_) => {
                let l = CT::Leaf(*n);
                *n += 1;
                l
            }
            CT::Not(x) => CT::Not(Box::new(renum(x, n))),
            CT::And(a, b) => {
                let a2 = renum(a, n);
                CT::And(Box::new(a2), Box::new(renum(b, n)))
            }
            CT::Or(a, b) => {
                let a2 = renum(a, n);
                CT::Or(Box::new(a2), Box::new(renum(b, n)))
            }
        }
    }
    gen(leaves).iter().map(|c| renum(c, &mut 0)).collect()
}

fn actions() -> Vec<Piece> {
    let mut v = vec![
        p("F.b = 2;", "Set(F.b = Int(2))"),
        p("F.b = -2.5;", "Set(F.b = Float(-2.5))"),
        p("F.b = true;", "Set(F.b = Bool(true))"),
        p("F.b = null;", "Set(F.b = Null)"),
        p("F.b = \"str\";", "Set(F.b = Str(\"str\"))"),
        p("F.b = F.a;", "Set(F.b = Expr(F.a))"),
        p("out = other;", "Set(out = Expr(other))"),
        p("F.b = F.a + 1;", "Set(F.b = Expr(F.a+1))"),
        p("F.b = F.a * (1 - F.c);", "Set(F.b = Expr(F.a*(1-F.c)))"),
        p("F.b = [1, 2];", "Set(F.b = Arr[Int(1),Int(2)])"),
        p("F.l += \"x\";", "Append(F.l += Str(\"x\"))"),
        p("F.l += F.a;", "Append(F.l += Expr(F.a))"),
        p("retract($F);", "Retract(F)"),
        p("log(\"m\");", "Log(\"m\")"),
        p("Log(\"two words\");", "Log(\"two words\")"),
        p("ActivateAgendaGroup(\"g\");", "ActivateAgendaGroup(\"g\")"),
        p("ScheduleRule(500, \"next\");", "ScheduleRule(500, \"next\")"),
        p("CompleteWorkflow(\"w\");", "CompleteWorkflow(\"w\")"),
        p("MyFunc(1, \"a\");", "Custom(MyFunc, {\"0\": \"Int(1)\", \"1\": \"Str(\\\"a\\\")\"})"),
        p("Notify(F.a);", "Custom(Notify, {\"0\": \"Expr(F.a)\"})"),
        p("F.b=2;", "Set(F.b = Int(2))"),
        p("retract( $F );", "Retract(F)"),
        p("log( \"m\" );", "Log(\"m\")"),
        p("MyFunc( 1 , \"a\" );", "Custom(MyFunc, {\"0\": \"Int(1)\", \"1\": \"Str(\\\"a\\\")\"})"),
        p("Notify(\"a,b\");", "Custom(Notify, {\"0\": \"Str(\\\"a,b\\\")\"})"),
        p("Notify(\"a\", \"b, c\", 3);", "Custom(Notify, {\"0\": \"Str(\\\"a\\\")\", \"1\": \"Str(\\\"b, c\\\")\", \"2\": \"Int(3)\"})"),
    ];
    for (s, tags) in strings() {
        let mut a = p(&format!("F.t = \"{}\";", s), &format!("Set(F.t = Str({:?}))", s));
        a.tags = tags.clone();
        a.tags.push("string_in_assignment");
        v.push(a);
        let mut l = p(&format!("log(\"{}\");", s), &format!("Log({:?})", s));
        l.tags = tags.clone();
        l.tags.push("string_in_call");
        v.push(l);
    }
    v
}

#[derive(Clone, Copy, Debug, PartialEq)]
enum Layout {
    Spaces,
    Newlines,
    Tabs,
    Compact, // one line, single spaces, `{` glued
}

#[derive(Clone, Copy, Debug, PartialEq)]
enum Comment {
    None,
    OwnLineSlash,
    TrailingSlash,
    BlockOwnLine,
    BlockInline,
    HeaderSlash,
    /// block comments whose body starts with `/`, is made of stars, is empty, spans lines, or holds GRL text
    BlockSlashFirst,
    BlockStars,
    BlockEmpty,
    BlockCommentedAction,
    BlockCommentedRule,
}

#[derive(Clone, Debug)]
struct Spec {
    name: Piece,
    attrs: Vec<Attr>,
    cond_text: String,
    cond_expect: String,
    actions: Vec<Piece>,
    layout: Layout,
    comment: Comment,
    tags: Vec<&'static str>,
}

impl Spec {
    fn base() -> Self {
        Spec { name: p("\"N\"", "N"), attrs: vec![], cond_text: "F.a == 1".into(), cond_expect: "Atom(F.a == Int(1))".into(), actions: vec![p("F.b = 2;", "Set(F.b = Int(2))")], layout: Layout::Newlines, comment: Comment::None, tags: vec![] }
    }
    fn text(&self) -> String {
        let sep = match self.layout {
            Layout::Spaces | Layout::Compact => " ",
            Layout::Newlines => "\n    ",
            Layout::Tabs => "\t",
        };
        let mut toks: Vec<String> = vec!["rule".into(), self.name.text.clone()];
        for a in &self.attrs {
            toks.push(a.text.clone());
        }
        toks.push("{".into());
        toks.push("when".into());
        toks.push(self.cond_text.clone());
        toks.push("then".into());
        for a in &self.actions {
            toks.push(a.text.clone());
        }
        toks.push("}".into());
        let nl = self.layout == Layout::Newlines;
        match self.comment {
            Comment::None => {}
            Comment::OwnLineSlash if nl => {
                toks.insert(toks.len() - 1, "// own line comment; with } and then".into());
                let w = toks.iter().position(|t| t == "when").unwrap();
                toks.insert(w + 1, "// check it".into());
            }
            Comment::TrailingSlash if nl => {
                let n = toks.len();
                toks[n - 2] = format!("{} // trailing comment", toks[n - 2]);
            }
            Comment::BlockOwnLine if nl => {
                let w = toks.iter().position(|t| t == "then").unwrap();
                toks.insert(w + 1, "/* block comment */".into());
            }
            Comment::BlockInline => {
                let w = toks.iter().position(|t| t == "then").unwrap();
                toks[w + 1] = format!("/* c */ {}", toks[w + 1]);
            }
            Comment::BlockSlashFirst | Comment::BlockStars | Comment::BlockEmpty | Comment::BlockCommentedAction => {
                let c = match self.comment {
                    Comment::BlockSlashFirst => "/*/ F.zz = 8; */",
                    Comment::BlockStars => "/*** F.zz = 8; ***/",
                    Comment::BlockEmpty => "/**/",
                    _ => "/* F.zz = 8; log(\"x\"); */",
                };
                let w = toks.iter().position(|t| t == "then").unwrap();
                toks[w + 1] = format!("{} {}", c, toks[w + 1]);
            }
            Comment::BlockCommentedRule => {
                return format!("/*/ rule \"Ghost\" {{ when F.a == 1 then F.b = 2; }} /*/ {}", { let mut s2 = self.clone(); s2.comment = Comment::None; s2.text() });
            }
            Comment::HeaderSlash if nl => {
                return format!("// a comment before the rule\n{}", { let mut s2 = self.clone(); s2.comment = Comment::None; s2.text() });
            }
            _ => {}
        }
        if self.layout == Layout::Compact {
            // one line, single spaces, the opening brace glued to what precedes it
            let mut out = String::new();
            for (i, t) in toks.iter().enumerate() {
                if i > 0 && t != "{" {
                    out.push(' ');
                }
                out.push_str(t);
            }
            return out;
        }
        toks.join(sep)
    }
    fn expect(&self) -> String {
        let mut salience = "0".to_string();
        let (mut nl, mut loa) = (false, false);
        let (mut ag, mut act, mut eff, mut exp): (Option<String>, Option<String>, Option<String>, Option<String>) = (None, None, None, None);
        for a in &self.attrs {
            match a.key {
                "salience" => salience = a.val.clone(),
                "no_loop" => nl = true,
                "loa" => loa = true,
                "agenda" => ag = Some(a.val.clone()),
                "activation" => act = Some(a.val.clone()),
                "effective" => eff = Some(a.val.clone()),
                _ => exp = Some(a.val.clone()),
            }
        }
        format!(
            "name={:?} salience={} no_loop={} lock_on_active={} agenda={:?} activation={:?} effective={:?} expires={:?} enabled=true\n  when {}\n  then {}",
            self.name.expect,
            salience,
            nl,
            loa,
            ag,
            act,
            eff,
            exp,
            self.cond_expect,
            self.actions.iter().map(|a| a.expect.clone()).collect::<Vec<_>>().join("; ")
        )
    }
    fn all_tags(&self) -> Vec<String> {
        let mut t: BTreeSet<&'static str> = self.tags.iter().copied().collect();
        t.extend(self.name.tags.iter());
        for a in &self.actions {
            t.extend(a.tags.iter());
        }
        for a in &self.attrs {
            if a.val.starts_with('-') && a.key == "salience" {
                t.insert("neg_salience");
            }
            if a.key != "salience" && (a.val.contains("salience") || a.val.contains("no-loop") || a.val.contains("lock-on-active")) {
                t.insert("attr_value_has_keyword");
            }
        }
        match self.comment {
            Comment::TrailingSlash if self.layout == Layout::Newlines => {
                t.insert("comment_trailing");
            }
            Comment::BlockOwnLine if self.layout == Layout::Newlines => {
                t.insert("comment_block");
            }
            Comment::BlockInline | Comment::BlockSlashFirst | Comment::BlockStars | Comment::BlockEmpty | Comment::BlockCommentedAction | Comment::BlockCommentedRule => {
                t.insert("comment_block");
            }
            _ => {}
        }
        t.into_iter().map(|s| s.to_string()).collect()
    }
}

fn all_specs(tier: Tier) -> Vec<Spec> {
    let quick = tier == Tier::Quick;
    let mut out: Vec<Spec> = vec![];
    let atoms = atoms();
    let acts = actions();
    let layouts = [Layout::Newlines, Layout::Spaces, Layout::Tabs, Layout::Compact];
    let comments = [Comment::None, Comment::OwnLineSlash, Comment::TrailingSlash, Comment::BlockOwnLine, Comment::BlockInline, Comment::HeaderSlash, Comment::BlockSlashFirst, Comment::BlockStars, Comment::BlockEmpty, Comment::BlockCommentedAction, Comment::BlockCommentedRule];
    let with = |f: &dyn Fn(&mut Spec)| {
        let mut s = Spec::base();
        f(&mut s);
        s
    };
    // 1. each dimension on its own (x layouts)
    for l in layouts {
        for n in names() {
            out.push(with(&|s| { s.name = n.clone(); s.layout = l }));
        }
        for al in attr_lists(if quick { 3 } else { 4 }) {
            if l != Layout::Newlines && al.len() > 2 {
                continue;
            }
            out.push(with(&|s| { s.attrs = al.clone(); s.layout = l }));
        }
        for (i, a) in atoms.iter().enumerate() {
            let _ = i;
            out.push(with(&|s| { s.cond_text = a.text.clone(); s.cond_expect = a.expect.clone(); s.tags = a.tags.clone(); s.layout = l }));
        }
        for a in &acts {
            out.push(with(&|s| { s.actions = vec![a.clone()]; s.layout = l }));
            // as the first of two and as the second of two actions
            out.push(with(&|s| { s.actions = vec![a.clone(), p("F.z = 9;", "Set(F.z = Int(9))")]; s.layout = l }));
            out.push(with(&|s| { s.actions = vec![p("F.z = 9;", "Set(F.z = Int(9))"), a.clone()]; s.layout = l }));
        }
        for c in comments {
            out.push(with(&|s| { s.comment = c; s.layout = l }));
        }
    }
    // 2. condition trees: all shapes with <= 3 (quick) / <= 4 leaves, leaves drawn from a rotating window of atoms
    let max_leaves = if quick { 3 } else { 4 };
    let core: Vec<usize> = (0..atoms.len()).collect();
    for leaves in 1..=max_leaves {
        for (si, sh) in shapes(leaves, &mut 0).iter().enumerate() {
            // every atom appears in every leaf position of some shape: offset walks the atom list
            let rounds = if quick { 2 } else { 4 };
            for r in 0..rounds {
                let offset = (si * 7 + r * 13) % core.len();
                let pick: Vec<Piece> = (0..leaves).map(|k| atoms[core[(offset + k * 5) % core.len()]].clone()).collect();
                for full in [false, true] {
                    let mut tags = vec![];
                    sh.tags(&pick, &mut tags);
                    out.push(with(&|s| { s.cond_text = sh.text(&pick, full); s.cond_expect = sh.expect(&pick); s.tags = tags.clone() }));
                }
            }
        }
    }
    // chains and nests to depth 5
    for n in 2..=5usize {
        let pick: Vec<Piece> = (0..n).map(|k| atoms[k * 3 % atoms.len()].clone()).collect();
        let mut left = CT::Leaf(0);
        let mut right = CT::Leaf(n - 1);
        for k in 1..n {
            left = if k % 2 == 0 { CT::Or(Box::new(left), Box::new(CT::Leaf(k))) } else { CT::And(Box::new(left), Box::new(CT::Leaf(k))) };
            right = if k % 2 == 0 { CT::And(Box::new(CT::Leaf(n - 1 - k)), Box::new(right)) } else { CT::Or(Box::new(CT::Leaf(n - 1 - k)), Box::new(right)) };
        }
        for c in [left, right] {
            for full in [false, true] {
                out.push(with(&|s| { s.cond_text = c.text(&pick, full); s.cond_expect = c.expect(&pick) }));
            }
        }
        let nest = format!("{}F.a == 1{}", "(".repeat(n), ")".repeat(n));
        out.push(with(&|s| { s.cond_text = nest.clone() }));
    }
    // 3. pairwise: every value of one dimension with every value of another (others default)
    let pair_start = out.len();
    let nm = names();
    let als: Vec<Vec<Attr>> = attr_lists(1);
    for n in &nm {
        for al in &als {
            out.push(with(&|s| { s.name = n.clone(); s.attrs = al.clone() }));
        }
        for a in &atoms {
            out.push(with(&|s| { s.name = n.clone(); s.cond_text = a.text.clone(); s.cond_expect = a.expect.clone(); s.tags = a.tags.clone() }));
        }
        for a in &acts {
            out.push(with(&|s| { s.name = n.clone(); s.actions = vec![a.clone()] }));
        }
        for c in comments {
            out.push(with(&|s| { s.name = n.clone(); s.comment = c }));
        }
    }
    for al in &als {
        for a in &atoms {
            out.push(with(&|s| { s.attrs = al.clone(); s.cond_text = a.text.clone(); s.cond_expect = a.expect.clone(); s.tags = a.tags.clone() }));
        }
        for a in &acts {
            out.push(with(&|s| { s.attrs = al.clone(); s.actions = vec![a.clone()] }));
        }
        for c in comments {
            out.push(with(&|s| { s.attrs = al.clone(); s.comment = c }));
        }
    }
    for a in &atoms {
        for b in &acts {
            out.push(with(&|s| { s.cond_text = a.text.clone(); s.cond_expect = a.expect.clone(); s.tags = a.tags.clone(); s.actions = vec![b.clone()] }));
        }
        for c in comments {
            out.push(with(&|s| { s.cond_text = a.text.clone(); s.cond_expect = a.expect.clone(); s.tags = a.tags.clone(); s.comment = c }));
        }
    }
    for b in &acts {
        for c in comments {
            out.push(with(&|s| { s.actions = vec![b.clone()]; s.comment = c }));
        }
    }
    if !quick {
        // thorough: the pairwise product under every layout ...
        let pairs: Vec<Spec> = out[pair_start..].to_vec();
        for l in [Layout::Spaces, Layout::Tabs, Layout::Compact] {
            for sp in &pairs {
                let mut s2 = sp.clone();
                s2.layout = l;
                out.push(s2);
            }
        }
        // ... every ordered pair of atoms under && and ||
        for (i, a) in atoms.iter().enumerate() {
            for (j, b) in atoms.iter().enumerate() {
                let pick = vec![a.clone(), b.clone()];
                for c in [CT::And(Box::new(CT::Leaf(0)), Box::new(CT::Leaf(1))), CT::Or(Box::new(CT::Leaf(0)), Box::new(CT::Leaf(1)))] {
                    let mut tags = vec![];
                    c.tags(&pick, &mut tags);
                    let _ = (i, j);
                    out.push(with(&|s| { s.cond_text = c.text(&pick, false); s.cond_expect = c.expect(&pick); s.tags = tags.clone() }));
                }
            }
        }
        // ... and three-way products: condition x action x comment placement (x layout), name x condition x action,
        // attribute x condition x action
        for a in &atoms {
            for b in &acts {
                for c in comments {
                    for l in layouts {
                        out.push(with(&|s| { s.cond_text = a.text.clone(); s.cond_expect = a.expect.clone(); s.tags = a.tags.clone(); s.actions = vec![b.clone()]; s.comment = c; s.layout = l }));
                    }
                }
                for n in &nm {
                    out.push(with(&|s| { s.name = n.clone(); s.cond_text = a.text.clone(); s.cond_expect = a.expect.clone(); s.tags = a.tags.clone(); s.actions = vec![b.clone()] }));
                }
                for al in &als {
                    out.push(with(&|s| { s.attrs = al.clone(); s.cond_text = a.text.clone(); s.cond_expect = a.expect.clone(); s.tags = a.tags.clone(); s.actions = vec![b.clone()] }));
                }
            }
        }
    }
    out
}

fn check_spec(s: &Spec, rep: &mut Report, nt: &mut BTreeSet<u64>) {
    rep.count("evaluations", 1);
    let text = s.text();
    let expect = s.expect();
    let tags = s.all_tags();
    for t in &tags {
        rep.tag(t);
    }
    nt.insert(hstr(&text));
    let case = json!({"sub": "single_rule", "text": text, "expected": expect});
    let r = std::panic::catch_unwind(|| GRLParser::parse_rules(&text));
    match r {
        Err(_) => rep.violation(Violation { class: "parser_panicked".into(), detail: crate::explore::take_panic(), tags, case }),
        Ok(Err(e)) => rep.violation(Violation { class: "valid_rule_rejected".into(), detail: format!("{:?}\n--- text ---\n{}", e, text), tags, case }),
        Ok(Ok(rules)) => {
            if rules.len() != 1 {
                rep.violation(Violation { class: "wrong_number_of_rules".into(), detail: format!("{} rules parsed from one rule block\n--- text ---\n{}", rules.len(), text), tags, case });
                return;
            }
            let got = nrule(&rules[0]);
            if got != expect {
                rep.violation(Violation { class: "ast_differs".into(), detail: format!("--- text ---\n{}\n--- expected ---\n{}\n--- parsed ---\n{}", text, expect, got), tags, case });
            }
        }
    }
}

/// files: a rule's result does not depend on which other rules share the text
fn files(rep: &mut Report, nt: &mut BTreeSet<u64>) {
    let atoms = atoms();
    let acts = actions();
    let mut pool: Vec<Spec> = vec![Spec::base()];
    let mk = |f: &dyn Fn(&mut Spec)| {
        let mut s = Spec::base();
        f(&mut s);
        s
    };
    pool.push(mk(&|s| { s.name = p("\"Second rule\"", "Second rule"); s.attrs = vec![attr_pool()[0].clone(), attr_pool()[1].clone()]; s.layout = Layout::Spaces }));
    pool.push(mk(&|s| { s.name = p("Bare_3", "Bare_3"); s.cond_text = "F.a == 1 && (F.b == true || G.c >= 2.5)".into(); s.cond_expect = "And[Atom(F.a == Int(1)), Or[Atom(F.b == Bool(true)), Atom(G.c >= Float(2.5))]]".into() }));
    pool.push(mk(&|s| { s.name = p("\"rule when then\"", "rule when then"); s.actions = vec![acts[13].clone(), acts[0].clone()]; s.layout = Layout::Tabs }));
    pool.push(mk(&|s| { s.name = p("\"R5\"", "R5"); s.attrs = vec![attr_pool()[3].clone()]; s.comment = Comment::OwnLineSlash }));
    pool.push(mk(&|s| { s.name = p("\"R6\"", "R6"); s.cond_text = atoms[9].text.clone(); s.cond_expect = atoms[9].expect.clone(); s.layout = Layout::Compact }));
    pool.push(mk(&|s| { s.name = p("\"R7\"", "R7"); s.attrs = vec![attr_variants()[2].clone()]; s.actions = vec![acts[7].clone(), acts[10].clone(), acts[12].clone()] }));
    pool.push(mk(&|s| { s.name = p("\"R8\"", "R8"); s.cond_text = "!(F.a == 1)".into(); s.cond_expect = "Not[Atom(F.a == Int(1))]".into() }));
    pool.push(mk(&|s| { s.name = p("\"Lowest\"", "Lowest"); s.attrs = vec![attr_variants()[7].clone()] }));
    pool.push(mk(&|s| { s.name = p("\"Highest\"", "Highest"); s.attrs = vec![attr_variants()[6].clone()] }));
    let seps = ["\n\n", "\n", " ", "\n// between rules\n", "", "\t", "\r\n", "/* between */", " // rule Ghost { when X.a == 1 then X.b = 2; }\n"];
    let mut seqs: Vec<Vec<usize>> = vec![vec![]];
    for i in 0..pool.len() {
        seqs.push(vec![i]);
        for j in 0..pool.len() {
            if i != j {
                seqs.push(vec![i, j]);
            }
        }
    }
    // prefixes of 8-chains in four rotations
    for r in 0..4 {
        for n in 3..=pool.len() {
            seqs.push((0..n).map(|k| (k * (2 * r + 1) + r) % pool.len()).collect::<Vec<_>>());
        }
    }
    for seq in seqs {
        let mut distinct = BTreeSet::new();
        if !seq.iter().all(|i| distinct.insert(*i)) {
            continue;
        }
        for sep in seps {
            rep.count("evaluations", 1);
            let text = seq.iter().map(|&i| pool[i].text()).collect::<Vec<_>>().join(sep);
            nt.insert(hstr(&text));
            let expect: Vec<String> = seq.iter().map(|&i| pool[i].expect()).collect();
            let case = json!({"sub": "files", "text": text, "expected": expect});
            match GRLParser::parse_rules(&text) {
                Err(e) => rep.violation(Violation { class: "valid_file_rejected".into(), detail: format!("{:?}\n--- text ---\n{}", e, text), tags: vec!["file".into()], case }),
                Ok(rules) => {
                    let got: Vec<String> = rules.iter().map(nrule).collect();
                    if got != expect {
                        rep.violation(Violation { class: "file_result_differs".into(), detail: format!("{} rules expected, {} parsed\n--- text ---\n{}\n--- expected ---\n{}\n--- parsed ---\n{}", expect.len(), got.len(), text, expect.join("\n"), got.join("\n")), tags: vec!["file".into()], case });
                        continue;
                    }
                    // the same text loaded through the knowledge base: the same rules, ordered by descending salience
                    // (file order among equals)
                    rep.count("evaluations", 1);
                    let mut order: Vec<usize> = (0..rules.len()).collect();
                    order.sort_by_key(|&i| std::cmp::Reverse(rules[i].salience));
                    let want: Vec<String> = order.iter().map(|&i| got[i].clone()).collect();
                    let kb = rust_rule_engine::engine::knowledge_base::KnowledgeBase::new("kb");
                    let loaded = std::panic::catch_unwind(std::panic::AssertUnwindSafe(|| kb.add_rules_from_grl(&text)));
                    let case = json!({"sub": "files", "text": text, "expected": expect, "via": "KnowledgeBase::add_rules_from_grl"});
                    match loaded {
                        Err(_) => rep.violation(Violation { class: "knowledge_base_load_panicked".into(), detail: format!("{}\n--- text ---\n{}", crate::explore::take_panic(), text), tags: vec!["file".into(), "knowledge_base".into()], case }),
                        Ok(Err(e)) => rep.violation(Violation { class: "valid_file_rejected".into(), detail: format!("add_rules_from_grl: {:?}\n--- text ---\n{}", e, text), tags: vec!["file".into(), "knowledge_base".into()], case }),
                        Ok(Ok(n)) => {
                            let have: Vec<String> = kb.get_rules().iter().map(nrule).collect();
                            if n != rules.len() || have != want {
                                rep.violation(Violation { class: "knowledge_base_content_differs".into(), detail: format!("add_rules_from_grl returned {} for {} rule blocks; the knowledge base holds\n{}\n--- expected (descending salience, file order among equals) ---\n{}\n--- text ---\n{}", n, rules.len(), have.join("\n"), want.join("\n"), text), tags: vec!["file".into(), "knowledge_base".into()], case });
                            }
                        }
                    }
                }
            }
        }
    }
}

pub fn run(opts: &Opts) -> Vec<Report> {
    let mut out = vec![];
    if crate::props::wants(opts, "single_rule") {
        let t0 = Instant::now();
        let specs = all_specs(opts.tier);
        let next = AtomicUsize::new(0);
        let parts: Vec<(Report, BTreeSet<u64>)> = std::thread::scope(|sc| {
            let mut hs = vec![];
            for _ in 0..crate::threads() {
                hs.push(sc.spawn(|| {
                    let mut rep = Report::new("single_rule");
                    let mut nt = BTreeSet::new();
                    loop {
                        let k = next.fetch_add(1, Ordering::SeqCst);
                        if k >= specs.len() {
                            break;
                        }
                        check_spec(&specs[k], &mut rep, &mut nt);
                    }
                    (rep, nt)
                }));
            }
            hs.into_iter().map(|h| h.join().unwrap_or_else(|_| crate::explore::machinery("C04 worker panicked"))).collect()
        });
        let mut total = Report::new("single_rule");
        let mut nt_all = BTreeSet::new();
        for (r, nt) in parts {
            total.merge(r);
            nt_all.extend(nt);
        }
        total.count("nontrivial", nt_all.len() as u64);
        total.sample(json!({"text": specs[specs.len() / 2].text(), "expected": specs[specs.len() / 2].expect()}));
        total.bound = "every value of every dimension (names, attribute subsets x orders, salience over the i32 range, atoms incl. 28 string contents with GRL metacharacters, action forms, layouts, comment placements) on its own under 4 layouts, pairwise with every value of every other dimension, and all condition-tree shapes up to the leaf bound with minimal and full parentheses".to_string() + if opts.tier == Tier::Thorough { "; thorough: the pairwise product under all 4 layouts, every ordered pair of atoms under && and ||, and the three-way products condition x action x comment x layout, name x condition x action, attribute x condition x action" } else { "" };
        total.wall_s = t0.elapsed().as_secs_f64();
        out.push(total);
    }
    if crate::props::wants(opts, "files") {
        let t0 = Instant::now();
        let mut rep = Report::new("files");
        let mut nt = BTreeSet::new();
        files(&mut rep, &mut nt);
        rep.count("nontrivial", nt.len() as u64);
        rep.sample(json!({"note": "files of 0..8 rules from a 10-rule pool (incl. salience i32::MIN and i32::MAX), each also loaded through KnowledgeBase::add_rules_from_grl: empty, singletons, all ordered pairs, prefixes of 8-chains x 9 separators"}));
        rep.bound = "files of 0..8 rules from a 10-rule pool (incl. salience i32::MIN and i32::MAX), each also loaded through KnowledgeBase::add_rules_from_grl: the empty file, every singleton, every ordered pair, prefixes of 8-chains in 4 rotations, x 9 separators (blank line, newline, space, comment line, nothing, tab, CRLF, block comment, trailing comment containing a rule)".into();
        rep.wall_s = t0.elapsed().as_secs_f64();
        out.push(rep);
    }
    out
}

pub fn replay(case: &serde_json::Value) -> crate::props::ReplayResult {
    let text = case["text"].as_str().unwrap_or("").to_string();
    let hist = vec![text.clone()];
    let rules = GRLParser::parse_rules(&text).map_err(|e| (hist.clone(), "valid_rule_rejected".to_string(), format!("{:?}", e)))?;
    let got: Vec<String> = rules.iter().map(nrule).collect();
    let expect: Vec<String> = match &case["expected"] {
        serde_json::Value::String(s) => vec![s.clone()],
        serde_json::Value::Array(a) => a.iter().filter_map(|x| x.as_str().map(|s| s.to_string())).collect(),
        _ => vec![],
    };
    if got != expect {
        return Err((hist, "ast_differs".into(), format!("expected:\n{}\nparsed:\n{}", expect.join("\n"), got.join("\n"))));
    }
    Ok(hist)
}
