//! C19 (b) — configuration sweep of `execute_parallel` with real threads against sequential
//! evaluation. The *configuration* space is enumerated exhaustively; the OS schedule is whatever
//! happens (sampling of schedules — the exhaustive-schedule half is the loom model, C19 (a)).
use crate::report::{hstr, Report, Violation};
use crate::{Opts, Tier};
use rust_rule_engine::engine::facts::Facts;
use rust_rule_engine::engine::knowledge_base::KnowledgeBase;
use rust_rule_engine::engine::parallel::{ParallelConfig, ParallelRuleEngine};
use rust_rule_engine::engine::rule::{Condition, ConditionGroup, Rule};
use rust_rule_engine::types::{ActionType, Operator, Value};
use serde_json::json;
use std::collections::BTreeSet;
use std::sync::mpsc;
use std::sync::{Arc, Mutex};
use std::time::{Duration, Instant};

pub fn rule(i: usize, salience: i32) -> Rule {
    let cond = match i % 6 {
        0 => ConditionGroup::single(Condition::new("X.a".to_string(), Operator::GreaterThan, Value::Integer(5))),
        1 => ConditionGroup::single(Condition::new("X.a".to_string(), Operator::LessThan, Value::Integer(5))),
        2 => ConditionGroup::and(
            ConditionGroup::single(Condition::new("X.s".to_string(), Operator::Equal, Value::String("vip".to_string()))),
            ConditionGroup::single(Condition::new("X.a".to_string(), Operator::GreaterThanOrEqual, Value::Integer(10))),
        ),
        3 => ConditionGroup::not(ConditionGroup::single(Condition::new("X.b".to_string(), Operator::Equal, Value::Boolean(true)))),
        4 => ConditionGroup::single(Condition::with_function("isBig".to_string(), vec!["X.a".to_string()], Operator::Equal, Value::Boolean(true))),
        _ => ConditionGroup::or(
            ConditionGroup::single(Condition::new("X.missing".to_string(), Operator::Equal, Value::Integer(1))),
            ConditionGroup::single(Condition::new("X.a".to_string(), Operator::NotEqual, Value::Integer(10))),
        ),
    };
    Rule::new(format!("R{}", i), cond, vec![ActionType::Set { field: format!("Out.r{}", i), value: Value::Boolean(true) }]).with_salience(salience)
}

fn facts() -> Facts {
    let f = Facts::new();
    let mut x = std::collections::HashMap::new();
    x.insert("a".to_string(), Value::Integer(10));
    x.insert("s".to_string(), Value::String("vip".to_string()));
    x.insert("b".to_string(), Value::Boolean(false));
    f.set("X", Value::Object(x));
    f
}

fn engine(enabled: bool, mt: usize, mr: usize) -> ParallelRuleEngine {
    let mut e = ParallelRuleEngine::new(ParallelConfig { enabled, max_threads: mt, min_rules_per_thread: mr, dependency_analysis: false });
    e.register_function("isBig", |args: &[Value], _f: &Facts| Ok(Value::Boolean(matches!(args.first(), Some(Value::Integer(i)) if *i > 5))));
    e
}

/// salience of rule i under template t (ties everywhere)
fn salience(t: usize, i: usize) -> i32 {
    match t {
        0 => 0,
        1 => (i % 2) as i32,
        2 => (i / 3) as i32,
        3 => -((i % 3) as i32),
        4 => if i == 0 { 10 } else { 0 },
        _ => (i % 4) as i32 - 1,
    }
}

pub fn run(opts: &Opts) -> Vec<Report> {
    if !crate::props::wants(opts, "parallel_config_sweep") {
        return vec![];
    }
    let t0 = Instant::now();
    let max_rules = if opts.tier == Tier::Quick { 8 } else { 24 };
    let current: Arc<Mutex<String>> = Arc::new(Mutex::new(String::new()));
    let (tx, rx) = mpsc::channel::<Option<Report>>();
    let cur2 = current.clone();
    std::thread::spawn(move || {
        let mut rep = Report::new("parallel_config_sweep");
        let mut distinct: BTreeSet<u64> = BTreeSet::new();
        for n in 1..=max_rules {
            for t in 0..6usize {
                for disabled in [None, Some(n / 2)] {
                    let kb = KnowledgeBase::new("kb");
                    for i in 0..n {
                        let mut r = rule(i + t, salience(t, i));
                        if disabled == Some(i) {
                            r.enabled = false;
                        }
                        kb.add_rule(r).unwrap();
                    }
                    let seq = engine(false, 1, 1).execute_parallel(&kb, &facts(), false);
                    let Ok(seq) = seq else {
                        rep.violation(Violation { class: "sequential_execution_failed".into(), detail: format!("{:?}", seq.err()), tags: vec![], case: json!({"sub": "parallel_config_sweep", "n": n, "template": t}) });
                        continue;
                    };
                    let sset: BTreeSet<(String, bool)> = seq.execution_contexts.iter().map(|c| (c.rule.name.clone(), c.fired)).collect();
                    let expected_n = n - disabled.is_some() as usize;
                    for mt in 1..=16usize {
                        for mr in 1..=4usize {
                            for enabled in [true, false] {
                                let case = json!({"sub": "parallel_config_sweep", "n_rules": n, "template": t, "disabled": disabled, "max_threads": mt, "min_rules_per_thread": mr, "enabled": enabled});
                                *cur2.lock().unwrap() = case.to_string();
                                let _ = tx.send(None);
                                let par = engine(enabled, mt, mr).execute_parallel(&kb, &facts(), false);
                                rep.count("evaluations", 1);
                                let par = match par {
                                    Ok(p) => p,
                                    Err(e) => {
                                        rep.violation(Violation { class: "parallel_execution_failed".into(), detail: format!("{:?}", e), tags: vec![], case });
                                        continue;
                                    }
                                };
                                let pset: BTreeSet<(String, bool)> = par.execution_contexts.iter().map(|c| (c.rule.name.clone(), c.fired)).collect();
                                if pset != sset || par.execution_contexts.len() != expected_n || par.total_rules_evaluated != seq.total_rules_evaluated || par.total_rules_fired != seq.total_rules_fired {
                                    rep.violation(Violation {
                                        class: "parallel_differs_from_sequential".into(),
                                        detail: format!("parallel: {} contexts {:?} evaluated {} fired {}; sequential: {:?} evaluated {} fired {}", par.execution_contexts.len(), pset, par.total_rules_evaluated, par.total_rules_fired, sset, seq.total_rules_evaluated, seq.total_rules_fired),
                                        tags: vec![],
                                        case,
                                    });
                                    continue;
                                }
                                // non-trivial: more than one worker can run
                                if enabled && mt >= 2 && n >= 2 {
                                    distinct.insert(hstr(&format!("{}|{}|{}|{}|{:?}", n, t, mt, mr, disabled)));
                                }
                                rep.sample(case);
                            }
                        }
                    }
                }
            }
        }
        rep.count("nontrivial", distinct.len() as u64);
        let _ = tx.send(Some(rep));
    });
    let mut result = None;
    loop {
        match rx.recv_timeout(Duration::from_secs(60)) {
            Ok(None) => {}
            Ok(Some(r)) => {
                result = Some(r);
                break;
            }
            Err(_) => break,
        }
    }
    let mut rep = match result {
        Some(r) => r,
        None => {
            let mut r = Report::new("parallel_config_sweep");
            let case: serde_json::Value = serde_json::from_str(&current.lock().unwrap()).unwrap_or(json!({}));
            r.violation(Violation { class: "execute_parallel_did_not_return".into(), detail: "no progress for 60 s".into(), tags: vec![], case });
            r.exhaustive = false;
            r
        }
    };
    rep.bound = format!("every (n_rules 1..={}, 6 salience templates with ties, one rule disabled or not, max_threads 1..=16, min_rules_per_thread 1..=4, parallelism on/off); OS schedules are sampled, not enumerated", max_rules);
    rep.assumptions.push("this half enumerates configurations exhaustively but only samples thread schedules (real threads); the exhaustive-schedule claim is carried by the loom half".into());
    rep.wall_s = t0.elapsed().as_secs_f64();
    vec![rep]
}

pub fn replay(case: &serde_json::Value) -> crate::props::ReplayResult {
    let n = case["n_rules"].as_u64().unwrap_or(2) as usize;
    let t = case["template"].as_u64().unwrap_or(0) as usize;
    let disabled = case["disabled"].as_u64().map(|x| x as usize);
    let mt = case["max_threads"].as_u64().unwrap_or(2) as usize;
    let mr = case["min_rules_per_thread"].as_u64().unwrap_or(1) as usize;
    let enabled = case["enabled"].as_bool().unwrap_or(true);
    let kb = KnowledgeBase::new("kb");
    for i in 0..n {
        let mut r = rule(i + t, salience(t, i));
        if disabled == Some(i) {
            r.enabled = false;
        }
        kb.add_rule(r).unwrap();
    }
    let seq = engine(false, 1, 1).execute_parallel(&kb, &facts(), false).map_err(|e| (vec![], "sequential_execution_failed".to_string(), format!("{:?}", e)))?;
    let sset: BTreeSet<(String, bool)> = seq.execution_contexts.iter().map(|c| (c.rule.name.clone(), c.fired)).collect();
    let hist = vec![format!("{}", case)];
    for _ in 0..50 {
        let par = engine(enabled, mt, mr).execute_parallel(&kb, &facts(), false).map_err(|e| (hist.clone(), "parallel_execution_failed".to_string(), format!("{:?}", e)))?;
        let pset: BTreeSet<(String, bool)> = par.execution_contexts.iter().map(|c| (c.rule.name.clone(), c.fired)).collect();
        if pset != sset || par.total_rules_evaluated != seq.total_rules_evaluated || par.total_rules_fired != seq.total_rules_fired {
            return Err((hist, "parallel_differs_from_sequential".to_string(), format!("parallel {:?} vs sequential {:?}", pset, sset)));
        }
    }
    Ok(hist)
}
