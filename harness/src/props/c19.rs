//! C19 (b) — configuration sweep of `execute_parallel` with real threads against sequential
//! evaluation. The *configuration* space is enumerated exhaustively; the OS schedule is whatever
//! happens (sampling of schedules — the exhaustive-schedule half is the loom model, C19 (a)).
use crate::report::{hstr, Report, Violation};
use crate::{Opts, Tier};
use rust_rule_engine::engine::facts::Facts;
use rust_rule_engine::engine::knowledge_base::KnowledgeBase;
use rust_rule_engine::engine::parallel::{ParallelConfig, ParallelRuleEngine};
use rust_rule_engine::engine::rule::{Condition, ConditionGroup, Rule};
use rust_rule_engine::types::{ActionType, Operator, Value};
use serde_json::json;
use std::collections::BTreeSet;
use std::sync::mpsc;
use std::sync::{Arc, Mutex};
use std::time::{Duration, Instant};

pub fn rule(i: usize, salience: i32) -> Rule {
    let cond = match i % 6 {
        0 => ConditionGroup::single(Condition::new("X.a".to_string(), Operator::GreaterThan, Value::Integer(5))),
        1 => ConditionGroup::single(Condition::new("X.a".to_string(), Operator::LessThan, Value::Integer(5))),
        2 => ConditionGroup::and(
            ConditionGroup::single(Condition::new("X.s".to_string(), Operator::Equal, Value::String("vip".to_string()))),
            ConditionGroup::single(Condition::new("X.a".to_string(), Operator::GreaterThanOrEqual, Value::Integer(10))),
        ),
        3 => ConditionGroup::not(ConditionGroup::single(Condition::new("X.b".to_string(), Operator::Equal, Value::Boolean(true)))),
        4 => ConditionGroup::single(Condition::with_function("isBig".to_string(), vec!["X.a".to_string()], Operator::Equal, Value::Boolean(true))),
        _ => ConditionGroup::or(
            ConditionGroup::single(Condition::new("X.missing".to_string(), Operator::Equal, Value::Integer(1))),
            ConditionGroup::single(Condition::new("X.a".to_string(), Operator::NotEqual, Value::Integer(10))),
        ),
    };
    Rule::new(format!("R{}", i), cond, vec![ActionType::Set { field: format!("Out.r{}", i), value: Value::Boolean(true) }]).with_salience(salience)
}

fn facts() -> Facts {
    let f = Facts::new();
    let mut x = std::collections::HashMap::new();
    x.insert("a".to_string(), Value::Integer(10));
    x.insert("s".to_string(), Value::String("vip".to_string()));
    x.insert("b".to_string(), Value::Boolean(false));
    f.set("X", Value::Object(x));
    f
}

fn engine(enabled: bool, mt: usize, mr: usize) -> ParallelRuleEngine {
    let mut e = ParallelRuleEngine::new(ParallelConfig { enabled, max_threads: mt, min_rules_per_thread: mr, dependency_analysis: false });
    e.register_function("isBig", |args: &[Value], _f: &Facts| Ok(Value::Boolean(matches!(args.first(), Some(Value::Integer(i)) if *i > 5))));
    e
}

/// salience of rule i under template t (ties everywhere)
fn salience(t: usize, i: usize) -> i32 {
    match t {
        0 => 0,
        1 => (i % 2) as i32,
        2 => (i / 3) as i32,
        3 => -((i % 3) as i32),
        4 => if i == 0 { 10 } else { 0 },
        _ => (i % 4) as i32 - 1,
    }
}

fn kb_of(n: usize, t: usize) -> KnowledgeBase {
    let kb = KnowledgeBase::new("kb");
    for i in 0..n {
        kb.add_rule(rule(i + t, salience(t, i))).unwrap();
    }
    kb
}

fn reuse_case(n: usize, t1: usize, t2: usize, enabled: bool, mt: usize) -> Result<(), (String, String)> {
    let (kb1, kb2) = (kb_of(n, t1), kb_of(n, t2));
    let seq = engine(false, 1, 1).execute_parallel(&kb2, &facts(), false).map_err(|e| ("sequential_execution_failed".to_string(), format!("{:?}", e)))?;
    let sset: BTreeSet<(String, bool)> = seq.execution_contexts.iter().map(|c| (c.rule.name.clone(), c.fired)).collect();
    // one engine object, two different knowledge bases (same number of rules, hence equal version counters)
    let mut e = engine(enabled, mt, 1);
    e.execute_parallel(&kb1, &facts(), false).map_err(|e| ("parallel_execution_failed".to_string(), format!("{:?}", e)))?;
    let par = e.execute_parallel(&kb2, &facts(), false).map_err(|e| ("parallel_execution_failed".to_string(), format!("{:?}", e)))?;
    let pset: BTreeSet<(String, bool)> = par.execution_contexts.iter().map(|c| (c.rule.name.clone(), c.fired)).collect();
    if pset != sset || par.execution_contexts.len() != n || par.total_rules_evaluated != seq.total_rules_evaluated || par.total_rules_fired != seq.total_rules_fired {
        return Err(("parallel_differs_from_sequential".to_string(), format!("second call of a reused engine: {} contexts {:?} evaluated {} fired {}; evaluating the second knowledge base one by one: {:?} evaluated {} fired {}", par.execution_contexts.len(), pset, par.total_rules_evaluated, par.total_rules_fired, sset, seq.total_rules_evaluated, seq.total_rules_fired)));
    }
    Ok(())
}

/// the engine object carries no state from one call to the next: a second call with another knowledge base gives that
/// knowledge base's verdicts
fn run_reuse(opts: &Opts) -> Report {
    let t0 = Instant::now();
    let mut rep = Report::new("engine_reused_across_knowledge_bases");
    let nmax = if opts.tier == Tier::Quick { 8 } else { 16 };
    let mut distinct = 0u64;
    for n in 1..=nmax {
        for t1 in 0..6usize {
            for t2 in 0..6usize {
                if t1 == t2 {
                    continue;
                }
                for (enabled, mt) in [(true, 4usize), (true, 2), (false, 1)] {
                    rep.count("evaluations", 1);
                    let case = json!({"sub": "engine_reused_across_knowledge_bases", "n_rules": n, "first_template": t1, "second_template": t2, "enabled": enabled, "max_threads": mt});
                    match std::panic::catch_unwind(|| reuse_case(n, t1, t2, enabled, mt)) {
                        Err(_) => rep.violation(Violation { class: "execute_parallel_panicked".into(), detail: crate::explore::take_panic(), tags: vec![], case }),
                        Ok(Err((c, d))) => rep.violation(Violation { class: c, detail: d, tags: vec!["engine_reused".into()], case }),
                        Ok(Ok(())) => distinct += 1,
                    }
                }
            }
        }
    }
    rep.count("nontrivial", distinct);
    rep.sample(json!({"n_rules": 3, "first_template": 0, "second_template": 1, "enabled": true, "max_threads": 4}));
    rep.bound = format!("every (n_rules 1..={}, ordered pair of different salience templates / rule sets, parallelism on with 4 or 2 threads, off): first call with one knowledge base, second call of the same engine object with the other, compared with one-by-one evaluation of the second", nmax);
    rep.wall_s = t0.elapsed().as_secs_f64();
    rep
}

pub fn run(opts: &Opts) -> Vec<Report> {
    let mut out = vec![];
    if crate::props::wants(opts, "engine_reused_across_knowledge_bases") {
        out.push(run_reuse(opts));
    }
    if !crate::props::wants(opts, "parallel_config_sweep") {
        return out;
    }
    let t0 = Instant::now();
    let max_rules = if opts.tier == Tier::Quick { 8 } else { 24 };
    let current: Arc<Mutex<String>> = Arc::new(Mutex::new(String::new()));
    let (tx, rx) = mpsc::channel::<Option<Report>>();
    let cur2 = current.clone();
    std::thread::spawn(move || {
        let mut rep = Report::new("parallel_config_sweep");
        let mut distinct: BTreeSet<u64> = BTreeSet::new();
        // quick tier: every count up to 8, and the counts around the 16-worker / 24-rule limits of the quantifier
        let counts: Vec<usize> = if max_rules >= 24 { (1..=max_rules).collect() } else { (1..=max_rules).chain([12, 16, 17, 20, 24]).collect() };
        for n in counts {
            for t in 0..6usize {
                for disabled in [None, Some(n / 2)] {
                    let kb = KnowledgeBase::new("kb");
                    for i in 0..n {
                        let mut r = rule(i + t, salience(t, i));
                        if disabled == Some(i) {
                            r.enabled = false;
                        }
                        kb.add_rule(r).unwrap();
                    }
                    let seq = engine(false, 1, 1).execute_parallel(&kb, &facts(), false);
                    let Ok(seq) = seq else {
                        rep.violation(Violation { class: "sequential_execution_failed".into(), detail: format!("{:?}", seq.err()), tags: vec![], case: json!({"sub": "parallel_config_sweep", "n": n, "template": t}) });
                        continue;
                    };
                    let sset: BTreeSet<(String, bool)> = seq.execution_contexts.iter().map(|c| (c.rule.name.clone(), c.fired)).collect();
                    let expected_n = n - disabled.is_some() as usize;
                    for mt in 1..=16usize {
                        for mr in 1..=4usize {
                            for enabled in [true, false] {
                                let case = json!({"sub": "parallel_config_sweep", "n_rules": n, "template": t, "disabled": disabled, "max_threads": mt, "min_rules_per_thread": mr, "enabled": enabled});
                                *cur2.lock().unwrap() = case.to_string();
                                let _ = tx.send(None);
                                let par = engine(enabled, mt, mr).execute_parallel(&kb, &facts(), false);
                                rep.count("evaluations", 1);
                                let par = match par {
                                    Ok(p) => p,
                                    Err(e) => {
                                        rep.violation(Violation { class: "parallel_execution_failed".into(), detail: format!("{:?}", e), tags: vec![], case });
                                        continue;
                                    }
                                };
                                let pset: BTreeSet<(String, bool)> = par.execution_contexts.iter().map(|c| (c.rule.name.clone(), c.fired)).collect();
                                if pset != sset || par.execution_contexts.len() != expected_n || par.total_rules_evaluated != seq.total_rules_evaluated || par.total_rules_fired != seq.total_rules_fired {
                                    rep.violation(Violation {
                                        class: "parallel_differs_from_sequential".into(),
                                        detail: format!("parallel: {} contexts {:?} evaluated {} fired {}; sequential: {:?} evaluated {} fired {}", par.execution_contexts.len(), pset, par.total_rules_evaluated, par.total_rules_fired, sset, seq.total_rules_evaluated, seq.total_rules_fired),
                                        tags: vec![],
                                        case,
                                    });
                                    continue;
                                }
                                // non-trivial: more than one worker can run
                                if enabled && mt >= 2 && n >= 2 {
                                    distinct.insert(hstr(&format!("{}|{}|{}|{}|{:?}", n, t, mt, mr, disabled)));
                                }
                                rep.sample(case);
                            }
                        }
                    }
                }
            }
        }
        rep.count("nontrivial", distinct.len() as u64);
        let _ = tx.send(Some(rep));
    });
    let mut result = None;
    loop {
        match rx.recv_timeout(Duration::from_secs(60)) {
            Ok(None) => {}
            Ok(Some(r)) => {
                result = Some(r);
                break;
            }
            Err(_) => break,
        }
    }
    let mut rep = match result {
        Some(r) => r,
        None => {
            let mut r = Report::new("parallel_config_sweep");
            let case: serde_json::Value = serde_json::from_str(&current.lock().unwrap()).unwrap_or(json!({}));
            r.violation(Violation { class: "execute_parallel_did_not_return".into(), detail: "no progress for 60 s".into(), tags: vec![], case });
            r.exhaustive = false;
            r
        }
    };
    rep.bound = format!("every (n_rules 1..={} (quick tier also 12, 16, 17, 20, 24), 6 salience templates with ties, one rule disabled or not, max_threads 1..=16, min_rules_per_thread 1..=4, parallelism on/off); OS schedules are sampled, not enumerated", max_rules);
    rep.assumptions.push("this half enumerates configurations exhaustively but only samples thread schedules (real threads); the exhaustive-schedule claim is carried by the loom half".into());
    rep.wall_s = t0.elapsed().as_secs_f64();
    out.push(rep);
    out
}

pub fn replay(case: &serde_json::Value) -> crate::props::ReplayResult {
    if case["sub"].as_str() == Some("engine_reused_across_knowledge_bases") {
        let g = |k: &str| case[k].as_u64().unwrap_or(1) as usize;
        let hist = vec![case.to_string()];
        return match reuse_case(g("n_rules"), g("first_template"), g("second_template"), case["enabled"].as_bool().unwrap_or(true), g("max_threads")) {
            Ok(()) => Ok(hist),
            Err((c, d)) => Err((hist, c, d)),
        };
    }
    let n = case["n_rules"].as_u64().unwrap_or(2) as usize;
    let t = case["template"].as_u64().unwrap_or(0) as usize;
    let disabled = case["disabled"].as_u64().map(|x| x as usize);
    let mt = case["max_threads"].as_u64().unwrap_or(2) as usize;
    let mr = case["min_rules_per_thread"].as_u64().unwrap_or(1) as usize;
    let enabled = case["enabled"].as_bool().unwrap_or(true);
    let kb = KnowledgeBase::new("kb");
    for i in 0..n {
        let mut r = rule(i + t, salience(t, i));
        if disabled == Some(i) {
            r.enabled = false;
        }
        kb.add_rule(r).unwrap();
    }
    let seq = engine(false, 1, 1).execute_parallel(&kb, &facts(), false).map_err(|e| (vec![], "sequential_execution_failed".to_string(), format!("{:?}", e)))?;
    let sset: BTreeSet<(String, bool)> = seq.execution_contexts.iter().map(|c| (c.rule.name.clone(), c.fired)).collect();
    let hist = vec![format!("{}", case)];
    for _ in 0..50 {
        let par = engine(enabled, mt, mr).execute_parallel(&kb, &facts(), false).map_err(|e| (hist.clone(), "parallel_execution_failed".to_string(), format!("{:?}", e)))?;
        let pset: BTreeSet<(String, bool)> = par.execution_contexts.iter().map(|c| (c.rule.name.clone(), c.fired)).collect();
        if pset != sset || par.total_rules_evaluated != seq.total_rules_evaluated || par.total_rules_fired != seq.total_rules_fired {
            return Err((hist, "parallel_differs_from_sequential".to_string(), format!("parallel {:?} vs sequential {:?}", pset, sset)));
        }
    }
    Ok(hist)
}
