use crate::report::Report;
use crate::Opts;
use serde_json::Value;

pub mod c01;
pub mod c02;
pub mod c03;
pub mod c04;
pub mod c05;
pub mod c06;
pub mod c07;
pub mod c08;
pub mod c09;
pub mod c10;
pub mod c11;
pub mod c12;
pub mod c13;
pub mod c14;
pub mod c15;
pub mod c16;
pub mod c17;
pub mod c18;
pub mod c19;
pub mod c20;

pub type ReplayResult = Result<Vec<String>, (Vec<String>, String, String)>;

pub fn run(prop: &str, opts: &Opts) -> Vec<Report> {
    match prop {
        "C01" => c01::run(opts),
        "C02" => c02::run(opts),
        "C03" => c03::run(opts),
        "C04" => c04::run(opts),
        "C05" => c05::run(opts),
        "C06" => c06::run(opts),
        "C07" => c07::run(opts),
        "C08" => c08::run(opts),
        "C09" => c09::run(opts),
        "C10" => c10::run(opts),
        "C11" => c11::run(opts),
        "C12" => c12::run(opts),
        "C13" => c13::run(opts),
        "C14" => c14::run(opts),
        "C15" => c15::run(opts),
        "C16" => c16::run(opts),
        "C17" => c17::run(opts),
        "C18" => c18::run(opts),
        "C19" => c19::run(opts),
        "C20" => c20::run(opts),
        _ => crate::explore::machinery(&format!("unknown property {}", prop)),
    }
}

pub fn replay(prop: &str, case: &Value) -> ReplayResult {
    if let Some(h) = case.get("history").and_then(|h| h.as_array()) {
        if case.get("choices").is_some() {
            *crate::explore::EXPECTED_HISTORY.lock().unwrap() = Some(h.iter().map(|x| x.as_str().unwrap_or("").to_string()).collect());
        }
    }
    match prop {
        "C01" => c01::replay(case),
        "C02" => c02::replay(case),
        "C03" => c03::replay(case),
        "C04" => c04::replay(case),
        "C05" => c05::replay(case),
        "C06" => c06::replay(case),
        "C07" => c07::replay(case),
        "C08" => c08::replay(case),
        "C09" => c09::replay(case),
        "C10" => c10::replay(case),
        "C11" => c11::replay(case),
        "C12" => c12::replay(case),
        "C13" => c13::replay(case),
        "C14" => c14::replay(case),
        "C15" => c15::replay(case),
        "C16" => c16::replay(case),
        "C17" => c17::replay(case),
        "C18" => c18::replay(case),
        "C19" => c19::replay(case),
        "C20" => c20::replay(case),
        _ => crate::explore::machinery(&format!("unknown property {}", prop)),
    }
}

pub fn child(prop: &str, spec: &str) {
    match prop {
        "C03" => c03::child(spec),
        "C05" => c05::child_dispatch(spec),
        "C07" => c07::child(spec),
        _ => crate::explore::machinery(&format!("no child mode for {}", prop)),
    }
}

pub fn choices_of(case: &Value) -> Vec<u16> {
    case.get("choices")
        .and_then(|c| c.as_array())
        .map(|a| a.iter().map(|x| x.as_u64().unwrap_or(0) as u16).collect())
        .unwrap_or_default()
}

pub fn wants(opts: &Opts, sub: &str) -> bool {
    opts.only.as_deref().map(|o| o == sub).unwrap_or(true)
}

pub fn conv(r: Result<Vec<String>, (Vec<String>, crate::explore::Mismatch)>) -> ReplayResult {
    r.map_err(|(h, m)| (h, m.class, m.detail))
}
