//! C14 — inner stream join equals the reference join for every interleaving.
//! Letters: a left arrival, a right arrival (key x timestamp), a watermark advance. Every history over
//! that alphabet = every pair of sequences with every merge of the two arrival orders.
use crate::explore::{self, Config, Mismatch, System};
use crate::report::{hmix, hstr, Report};
use crate::util::event;
use crate::{Opts, Tier};
use rust_rule_engine::rete::stream_join_node::{JoinStrategy, JoinType, JoinedEvent, StreamJoinNode};
use rust_rule_engine::streaming::join_manager::StreamJoinManager;
use rust_rule_engine::types::Value;
use serde_json::json;
use std::collections::BTreeSet;
use std::sync::{Arc, Mutex};
use std::time::Duration;

#[derive(Clone, Debug, PartialEq)]
pub enum Op {
    Left(Option<&'static str>, u64),
    Right(Option<&'static str>, u64),
    Watermark(i64),
}

#[derive(Clone, Copy, Debug, PartialEq)]
pub enum Cond {
    True,
    LeftNotAfterRight,
}

enum Subject {
    Node(StreamJoinNode),
    Manager(StreamJoinManager, Arc<Mutex<Vec<JoinedEvent>>>),
}

pub struct Sys {
    subj: Subject,
    window: u64,
    cond: Cond,
    keys: Vec<Option<&'static str>>,
    tss: Vec<u64>,
    wms: Vec<i64>,
    // model
    lefts: Vec<(String, Option<&'static str>, u64)>,
    rights: Vec<(String, Option<&'static str>, u64)>,
    emitted: BTreeSet<(String, String)>,
    eviction_possible: bool,
    /// added to every timestamp and watermark handed to the subject (the model keeps the small numbers)
    base: u64,
}

fn make_node(window: u64, cond: Cond) -> StreamJoinNode {
    make_node_on("left", "right", window, cond)
}

fn make_node_on(left: &str, right: &str, window: u64, cond: Cond) -> StreamJoinNode {
    StreamJoinNode::new(
        left.to_string(),
        right.to_string(),
        JoinType::Inner,
        JoinStrategy::TimeWindow { duration: Duration::from_secs(window) },
        Box::new(|e| e.data.get("k").and_then(|v| v.as_string())),
        Box::new(|e| e.data.get("k").and_then(|v| v.as_string())),
        match cond {
            Cond::True => Box::new(|_, _| true),
            Cond::LeftNotAfterRight => Box::new(|l, r| l.metadata.timestamp <= r.metadata.timestamp),
        },
    )
}

impl Sys {
    /// manager: 0 = the bare node, 1 = through StreamJoinManager, 2 = through a manager on which the join id was
    /// registered, unregistered and registered again before the run
    /// 3 = through a manager that also ran a second join on the same left stream (`left JOIN other`), unregistered before the run
    pub fn new(manager: u8, window: u64, cond: Cond, keys: &[Option<&'static str>], tss: &[u64], wms: &[i64], base: u64) -> Self {
        let subj = if manager > 0 {
            let mut m = StreamJoinManager::new();
            let sink: Arc<Mutex<Vec<JoinedEvent>>> = Arc::new(Mutex::new(Vec::new()));
            if manager == 2 {
                m.register_join("j".to_string(), make_node(window, cond), Box::new(|_| {}));
                m.unregister_join("j");
            }
            let s2 = sink.clone();
            if manager == 3 {
                // registered before "j" in one half of the runs (window parity), after it in the other
                if window % 2 == 0 {
                    m.register_join("other".to_string(), make_node_on("left", "other", window, cond), Box::new(|_| {}));
                }
            }
            m.register_join("j".to_string(), make_node(window, cond), Box::new(move |j| s2.lock().unwrap().push(j)));
            if manager == 3 {
                if window % 2 != 0 {
                    m.register_join("other".to_string(), make_node_on("left", "other", window, cond), Box::new(|_| {}));
                }
                m.unregister_join("other");
            }
            Subject::Manager(m, sink)
        } else {
            Subject::Node(make_node(window, cond))
        };
        Sys { subj, window, cond, keys: keys.to_vec(), tss: tss.to_vec(), wms: wms.to_vec(), lefts: vec![], rights: vec![], emitted: BTreeSet::new(), eviction_possible: false, base }
    }
    fn holds(&self, l: &(String, Option<&'static str>, u64), r: &(String, Option<&'static str>, u64)) -> bool {
        l.1.is_some()
            && l.1 == r.1
            && (l.2 as i64 - r.2 as i64).unsigned_abs() <= self.window
            && match self.cond {
                Cond::True => true,
                Cond::LeftNotAfterRight => l.2 <= r.2,
            }
    }
    fn reference(&self) -> BTreeSet<(String, String)> {
        let mut s = BTreeSet::new();
        for l in &self.lefts {
            for r in &self.rights {
                if self.holds(l, r) {
                    s.insert((l.0.clone(), r.0.clone()));
                }
            }
        }
        s
    }
}

impl System for Sys {
    type Op = Op;
    fn enabled(&self) -> Vec<Op> {
        let mut v = vec![];
        for k in &self.keys {
            for t in &self.tss {
                v.push(Op::Left(*k, *t));
            }
        }
        for k in &self.keys {
            for t in &self.tss {
                v.push(Op::Right(*k, *t));
            }
        }
        for w in &self.wms {
            v.push(Op::Watermark(*w));
        }
        v
    }
    fn cost(op: &Op) -> u32 {
        matches!(op, Op::Watermark(_)) as u32
    }
    fn step(&mut self, op: &Op) -> Result<u64, Mismatch> {
        let base = self.base;
        let mk = |id: &str, src: &str, k: &Option<&'static str>, t: u64| {
            let t = base + t;
            let mut data = vec![];
            if let Some(k) = k {
                data.push(("k", Value::String(k.to_string())));
            }
            event(id, src, "E", t, data)
        };
        let out: Vec<JoinedEvent> = match op {
            Op::Left(k, t) => {
                let id = format!("L{}", self.lefts.len());
                let e = mk(&id, "left", k, *t);
                self.lefts.push((id, *k, *t));
                match &mut self.subj {
                    Subject::Node(n) => n.process_left(e),
                    Subject::Manager(m, sink) => {
                        m.process_event(e);
                        std::mem::take(&mut *sink.lock().unwrap())
                    }
                }
            }
            Op::Right(k, t) => {
                let id = format!("R{}", self.rights.len());
                let e = mk(&id, "right", k, *t);
                self.rights.push((id, *k, *t));
                match &mut self.subj {
                    Subject::Node(n) => n.process_right(e),
                    Subject::Manager(m, sink) => {
                        m.process_event(e);
                        std::mem::take(&mut *sink.lock().unwrap())
                    }
                }
            }
            Op::Watermark(w) => {
                // could this watermark evict anything that has arrived?
                for x in self.lefts.iter().chain(self.rights.iter()) {
                    if x.1.is_some() && *w - x.2 as i64 > self.window as i64 {
                        self.eviction_possible = true;
                    }
                }
                let w = &(base as i64 + *w);
                match &mut self.subj {
                    Subject::Node(n) => n.update_watermark(*w),
                    Subject::Manager(m, sink) => {
                        m.update_watermark("left", *w);
                        std::mem::take(&mut *sink.lock().unwrap())
                    }
                }
            }
        };
        let reference = self.reference();
        for j in &out {
            let (Some(l), Some(r)) = (&j.left, &j.right) else {
                return Err(Mismatch::new("inner_join_emitted_half_pair", format!("inner join emitted an unmatched event: {:?}/{:?}", j.left.as_ref().map(|e| &e.id), j.right.as_ref().map(|e| &e.id))));
            };
            let p = (l.id.clone(), r.id.clone());
            if !reference.contains(&p) {
                return Err(Mismatch::new("pair_not_in_reference", format!("emitted ({}, {}) which is not in the reference join (window {}s, cond {:?})", p.0, p.1, self.window, self.cond)));
            }
            if !self.emitted.insert(p.clone()) {
                return Err(Mismatch::new("pair_emitted_twice", format!("pair ({}, {}) emitted more than once", p.0, p.1)));
            }
        }
        if !self.eviction_possible && self.emitted != reference {
            let missing: Vec<_> = reference.difference(&self.emitted).collect();
            return Err(Mismatch::new("pair_missing", format!("nothing can have been evicted, yet pairs {:?} were never emitted", missing)));
        }
        Ok(hmix(self.emitted.len() as u64, out.len() as u64))
    }
    fn kind(op: &Op) -> String {
        match op {
            Op::Left(Some(_), _) => "left",
            Op::Left(None, _) => "left_nokey",
            Op::Right(Some(_), _) => "right",
            Op::Right(None, _) => "right_nokey",
            Op::Watermark(_) => "watermark",
        }
        .to_string()
    }
    fn model_state(&self) -> u64 {
        hstr(&format!("{:?}{:?}{:?}{}", self.lefts, self.rights, self.emitted, self.eviction_possible))
    }
}

type Plan = (&'static str, Vec<Option<&'static str>>, Vec<u64>, Vec<i64>, usize, u32, u8, u64);

/// nanosecond epoch time: above 2^53, where f64 no longer represents every integer
const EPOCH_NS: u64 = 1_700_000_000_000_000_123;

pub fn run(opts: &Opts) -> Vec<Report> {
    let k3 = vec![Some("a"), Some("b"), None];
    let k2 = vec![Some("a"), Some("b")];
    let k1 = vec![Some("a")];
    let plan: Vec<Plan> = match opts.tier {
        Tier::Quick => vec![
            ("join_3keys_len4", k3.clone(), vec![0, 1, 3], vec![1, 10], 4, 2, 0, 0),
            ("join_2keys_len6", k2.clone(), vec![0, 2], vec![10], 6, 1, 0, 0),
            ("join_1key_len8", k1.clone(), vec![0, 2], vec![10], 8, 1, 0, 0),
            ("join_manager_len4", k2.clone(), vec![0, 1, 3], vec![10], 4, 1, 1, 0),
            ("join_manager_reregistered_len4", k2.clone(), vec![0, 1, 3], vec![10], 4, 1, 2, 0),
            ("join_manager_second_join_unregistered_len4", k2.clone(), vec![0, 1, 3], vec![10], 4, 1, 3, 0),
            ("join_epoch_ns_timestamps_len4", k2.clone(), vec![0, 1, 3], vec![10], 4, 1, 0, EPOCH_NS),
            ("join_epoch_ns_timestamps_manager_len4", k1.clone(), vec![0, 1, 3], vec![10], 4, 1, 1, EPOCH_NS),
        ],
        Tier::Thorough => vec![
            ("join_3keys_len5", k3.clone(), vec![0, 1, 3], vec![1, 10], 5, 2, 0, 0),
            ("join_2keys_len7", k2.clone(), vec![0, 2], vec![1, 10], 7, 2, 0, 0),
            ("join_1key_len9", k1.clone(), vec![0, 2], vec![10], 9, 2, 0, 0),
            ("join_manager_len5", k2.clone(), vec![0, 1, 3], vec![10], 5, 1, 1, 0),
            ("join_manager_reregistered_len5", k2.clone(), vec![0, 1, 3], vec![10], 5, 1, 2, 0),
            ("join_manager_second_join_unregistered_len5", k2.clone(), vec![0, 1, 3], vec![10], 5, 1, 3, 0),
            ("join_epoch_ns_timestamps_len5", k2.clone(), vec![0, 1, 3], vec![10], 5, 1, 0, EPOCH_NS),
            ("join_epoch_ns_timestamps_manager_len5", k1.clone(), vec![0, 1, 3], vec![10], 5, 1, 1, EPOCH_NS),
        ],
    };
    let mut out = vec![];
    for (name, keys, tss, wms, depth, max_cost, manager, base) in plan {
        if !crate::props::wants(opts, name) {
            continue;
        }
        let mut total = Report::new(name);
        for window in [0u64, 1, 2] {
            for cond in [Cond::True, Cond::LeftNotAfterRight] {
                let mut cfg = Config::new(name, depth);
                cfg.max_cost = max_cost;
                cfg.ctx = json!({"window_s": window, "cond": format!("{:?}", cond), "manager": manager, "keys": keys, "tss": tss, "wms": wms, "timestamp_base": base});
                let (k, t, w) = (keys.clone(), tss.clone(), wms.clone());
                let r = explore::explore(&move || Sys::new(manager, window, cond, &k, &t, &w, base), &cfg);
                total.merge(r);
            }
        }
        total.bound = format!("all arrival histories of length <= {} over left/right x keys {:?} x timestamps {:?} with <= {} watermark advances from {:?}; windows 0,1,2 s; 2 join conditions{}{}", depth, keys, tss, max_cost, wms,
            if base > 0 { format!("; every timestamp and watermark offset by {} (nanosecond epoch time, above 2^53)", base) } else { String::new() },
            match manager { 1 => "; through StreamJoinManager", 2 => "; through a manager on which the join id was registered, unregistered and registered again", 3 => "; through a manager that also held a second join on the same left stream, unregistered before the run", _ => "" });
        for l in ["left", "right", "watermark"] {
            if !total.letters.contains_key(l) {
                total.notes.push(format!("VACUITY: letter '{}' never enabled", l));
            }
        }
        out.push(total);
    }
    out
}

pub fn replay(case: &serde_json::Value) -> crate::props::ReplayResult {
    let ctx = &case["ctx"];
    let window = ctx["window_s"].as_u64().unwrap_or(1);
    let cond = if ctx["cond"].as_str() == Some("True") { Cond::True } else { Cond::LeftNotAfterRight };
    let manager = ctx["manager"].as_u64().unwrap_or(0) as u8;
    let keys: Vec<Option<&'static str>> = ctx["keys"]
        .as_array()
        .map(|a| a.iter().map(|k| match k.as_str() { Some("a") => Some("a"), Some("b") => Some("b"), _ => None }).collect())
        .unwrap_or_default();
    let tss: Vec<u64> = ctx["tss"].as_array().map(|a| a.iter().filter_map(|x| x.as_u64()).collect()).unwrap_or_default();
    let wms: Vec<i64> = ctx["wms"].as_array().map(|a| a.iter().filter_map(|x| x.as_i64()).collect()).unwrap_or_default();
    let base = ctx["timestamp_base"].as_u64().unwrap_or(0);
    let ch = crate::props::choices_of(case);
    crate::props::conv(explore::replay(&move || Sys::new(manager, window, cond, &keys, &tss, &wms, base), &ch))
}
