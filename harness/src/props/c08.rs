//! C08 — truth maintenance keeps exactly the supported facts.
//! Real `IncrementalEngine` (no rules) + a bare `TruthMaintenanceSystem` fed the same events,
//! compared with a support-graph model after every operation.
use crate::explore::{self, Config, Mismatch, System};
use crate::report::{hmix, hstr, Report};
use crate::{Opts, Tier};
use rust_rule_engine::rete::facts::TypedFacts;
use rust_rule_engine::rete::propagation::IncrementalEngine;
use rust_rule_engine::rete::tms::TruthMaintenanceSystem;
use rust_rule_engine::rete::working_memory::FactHandle;
use serde_json::json;

#[derive(Clone, Debug)]
pub enum Op {
    InsertExplicit,
    InsertLogical(Vec<usize>),
    AddJustification(usize, Vec<usize>),
    Retract(usize),
    /// one rule firing whose action emits: insert a new logical fact with premise a, then retract a
    FiringDeriveThenRetract(usize),
    /// one rule firing whose action emits: retract a, retract a again (fails: already gone), retract b
    FiringRetractTwiceThenOther(usize, usize),
}

#[derive(Clone)]
struct MFact {
    explicit: bool,
    directly_retracted: bool,
    justs: Vec<Vec<usize>>,
}

pub struct Sys {
    eng: IncrementalEngine,
    tms: TruthMaintenanceSystem,
    handles: Vec<FactHandle>,
    facts: Vec<MFact>,
    present: Vec<bool>, // as observed after the last operation (checked against the model clauses)
    max_facts: usize,
    pair_premises: bool,
    addjust_pairs: bool,
    /// Some = the engine has a rule whose action replays this script (several results in one firing)
    script: Option<std::sync::Arc<std::sync::Mutex<Vec<rust_rule_engine::rete::ActionResult>>>>,
}

impl Sys {
    pub fn new(max_facts: usize, pair_premises: bool, addjust_pairs: bool) -> Self {
        Sys {
            eng: IncrementalEngine::new(),
            tms: TruthMaintenanceSystem::new(),
            handles: vec![],
            facts: vec![],
            present: vec![],
            max_facts,
            pair_premises,
            addjust_pairs,
            script: None,
        }
    }
    pub fn with_rule_firings(mut self) -> Self {
        use rust_rule_engine::rete::network::{ReteUlNode, TypedReteUlRule};
        use rust_rule_engine::rete::AlphaNode;
        let script: std::sync::Arc<std::sync::Mutex<Vec<rust_rule_engine::rete::ActionResult>>> = std::sync::Arc::new(std::sync::Mutex::new(Vec::new()));
        let s2 = script.clone();
        self.eng.add_rule(
            TypedReteUlRule {
                name: "Go".to_string(),
                node: ReteUlNode::UlAlpha(AlphaNode { field: "G.v".to_string(), operator: ">=".to_string(), value: "0".to_string() }),
                priority: 0,
                no_loop: true,
                action: std::sync::Arc::new(move |_f: &mut TypedFacts, results: &mut rust_rule_engine::rete::ActionResults| {
                    for r in s2.lock().unwrap().drain(..) {
                        results.add(r);
                    }
                }),
            },
            vec!["G".to_string()],
        );
        self.script = Some(script);
        self
    }
    /// one firing of the scripted rule: a trigger fact is inserted, fire_all runs the action once, the trigger is removed
    fn fire_script(&mut self, items: Vec<rust_rule_engine::rete::ActionResult>) -> Result<(), Mismatch> {
        *self.script.as_ref().unwrap().lock().unwrap() = items;
        // the scripted rule is no-loop (it would otherwise be re-activated by its own effects): clear its fired flag
        self.eng.reset();
        let mut d = TypedFacts::new();
        d.set("v", 0i64);
        let g = self.eng.insert("G".to_string(), d);
        let fired = self.eng.fire_all();
        let _ = self.eng.retract(g);
        if fired != vec!["Go".to_string()] {
            return Err(Mismatch::new("scripted_rule_did_not_fire_once", format!("fire_all returned {:?}", fired)));
        }
        if !self.script.as_ref().unwrap().lock().unwrap().is_empty() {
            return Err(Mismatch::new("scripted_rule_did_not_fire_once", "the action did not run".to_string()));
        }
        Ok(())
    }
    fn live(&self) -> Vec<usize> {
        (0..self.facts.len()).filter(|&i| self.present[i]).collect()
    }
    fn data(n: usize) -> TypedFacts {
        let mut t = TypedFacts::new();
        t.set("v", n as i64);
        t
    }
    /// least fixpoint of support over the facts that were never retracted directly
    fn well_founded(&self) -> Vec<bool> {
        let n = self.facts.len();
        let mut p = vec![false; n];
        loop {
            let mut changed = false;
            for i in 0..n {
                if p[i] || self.facts[i].directly_retracted {
                    continue;
                }
                let sup = self.facts[i].explicit || self.facts[i].justs.iter().any(|j| j.iter().all(|&q| p[q]));
                if sup {
                    p[i] = true;
                    changed = true;
                }
            }
            if !changed {
                break;
            }
        }
        p
    }
    fn support_graph_acyclic(&self) -> bool {
        // edges premise -> fact; detect a cycle with DFS colours
        let n = self.facts.len();
        let mut colour = vec![0u8; n];
        fn visit(i: usize, f: &[MFact], c: &mut [u8]) -> bool {
            c[i] = 1;
            for j in &f[i].justs {
                for &p in j {
                    if c[p] == 1 {
                        return false;
                    }
                    if c[p] == 0 && !visit(p, f, c) {
                        return false;
                    }
                }
            }
            c[i] = 2;
            true
        }
        for i in 0..n {
            if colour[i] == 0 && !visit(i, &self.facts, &mut colour) {
                return false;
            }
        }
        true
    }
    fn observe(&self) -> Vec<bool> {
        self.handles.iter().map(|h| self.eng.working_memory().get(h).is_some()).collect()
    }
    fn check_state(&self, before: &[bool], op: &Op, obs: &[bool]) -> Result<(), Mismatch> {
        let n = self.facts.len();
        for i in 0..n {
            let f = &self.facts[i];
            if f.directly_retracted {
                if obs[i] {
                    return Err(Mismatch::new("retracted_fact_present", format!("fact #{} was retracted but working memory still returns it", i)));
                }
                continue;
            }
            if f.explicit {
                if !obs[i] {
                    return Err(Mismatch::new("explicit_fact_removed", format!("explicit fact #{} disappeared without being retracted", i)));
                }
                continue;
            }
            let supported = f.justs.iter().any(|j| j.iter().all(|&p| obs[p]));
            if obs[i] && !supported {
                return Err(Mismatch::new("unsupported_fact_present", format!("logical fact #{} is present but none of its justifications {:?} has all premises present (present={:?})", i, f.justs, obs)));
            }
            if !obs[i] && supported {
                return Err(Mismatch::new("supported_fact_removed", format!("logical fact #{} is absent although a justification in {:?} has all premises present (present={:?})", i, f.justs, obs)));
            }
        }
        // well-founded support is never lost (unique answer when the support graph is acyclic)
        let wf = self.well_founded();
        for i in 0..n {
            if wf[i] && !obs[i] {
                return Err(Mismatch::new("supported_fact_removed", format!("fact #{} has well-founded support but is absent", i)));
            }
        }
        if self.support_graph_acyclic() {
            for i in 0..n {
                if obs[i] != wf[i] {
                    return Err(Mismatch::new("unsupported_fact_present", format!("acyclic support graph: fact #{} presence {} differs from the unique supported set", i, obs[i])));
                }
            }
        }
        // an operation that is not a retraction removes nothing
        if !matches!(op, Op::Retract(_) | Op::FiringDeriveThenRetract(_) | Op::FiringRetractTwiceThenOther(..)) {
            for i in 0..before.len() {
                if before[i] && !obs[i] {
                    return Err(Mismatch::new("non_retraction_removed_fact", format!("{:?} removed fact #{}", op, i)));
                }
            }
        }
        // TMS views for present facts
        for i in 0..n {
            let h = self.handles[i];
            let f = &self.facts[i];
            if obs[i] {
                if self.eng.tms().is_explicit(h) != f.explicit {
                    return Err(Mismatch::new("tms_view", format!("is_explicit(#{}) = {} but fact explicit = {}", i, !f.explicit, f.explicit)));
                }
                if self.eng.tms().is_logical(h) != !f.justs.is_empty() {
                    return Err(Mismatch::new("tms_view", format!("is_logical(#{}) = {} but the fact has {} logical justifications", i, self.eng.tms().is_logical(h), f.justs.len())));
                }
                if !self.eng.tms().has_valid_justification(h) {
                    return Err(Mismatch::new("tms_view", format!("present fact #{} reports no valid justification", i)));
                }
            } else if !f.explicit && !f.directly_retracted && self.eng.tms().has_valid_justification(h) {
                return Err(Mismatch::new("tms_view", format!("cascade-removed fact #{} still reports a valid justification", i)));
            }
        }
        Ok(())
    }
}

fn subsets(live: &[usize], pairs: bool, exclude: Option<usize>) -> Vec<Vec<usize>> {
    let l: Vec<usize> = live.iter().copied().filter(|&x| Some(x) != exclude).collect();
    let mut out: Vec<Vec<usize>> = l.iter().map(|&a| vec![a]).collect();
    if pairs {
        for a in 0..l.len() {
            for b in a + 1..l.len() {
                out.push(vec![l[a], l[b]]);
            }
        }
    }
    out
}

impl System for Sys {
    type Op = Op;
    fn enabled(&self) -> Vec<Op> {
        let live = self.live();
        let mut ops = vec![];
        if self.facts.len() < self.max_facts {
            ops.push(Op::InsertExplicit);
            for s in subsets(&live, self.pair_premises, None) {
                ops.push(Op::InsertLogical(s));
            }
        }
        for &h in &live {
            ops.push(Op::Retract(h));
        }
        if self.script.is_some() {
            if self.facts.len() < self.max_facts {
                for &a in &live {
                    ops.push(Op::FiringDeriveThenRetract(a));
                }
            }
            for &a in &live {
                for &b in &live {
                    if a != b {
                        ops.push(Op::FiringRetractTwiceThenOther(a, b));
                    }
                }
            }
        }
        for &h in &live {
            // explicit facts may receive logical justifications too: they must stay until retracted explicitly
            for s in subsets(&live, self.addjust_pairs, Some(h)) {
                if !self.facts[h].justs.contains(&s) {
                    ops.push(Op::AddJustification(h, s));
                }
            }
        }
        ops
    }
    fn step(&mut self, op: &Op) -> Result<u64, Mismatch> {
        let before = self.present.clone();
        match op {
            Op::InsertExplicit => {
                let n = self.facts.len();
                let h = self.eng.insert_explicit("T".to_string(), Sys::data(n));
                if self.handles.contains(&h) {
                    return Err(Mismatch::new("handle_reused", format!("handle {:?} issued twice", h)));
                }
                self.tms.add_explicit_justification(h);
                self.handles.push(h);
                self.facts.push(MFact { explicit: true, directly_retracted: false, justs: vec![] });
            }
            Op::InsertLogical(p) => {
                let n = self.facts.len();
                let ph: Vec<FactHandle> = p.iter().map(|&i| self.handles[i]).collect();
                let h = self.eng.insert_logical("T".to_string(), Sys::data(n), "r".to_string(), ph.clone());
                if self.handles.contains(&h) {
                    return Err(Mismatch::new("handle_reused", format!("handle {:?} issued twice", h)));
                }
                self.tms.add_logical_justification(h, "r".to_string(), ph);
                self.handles.push(h);
                self.facts.push(MFact { explicit: false, directly_retracted: false, justs: vec![p.clone()] });
            }
            Op::AddJustification(h, p) => {
                let ph: Vec<FactHandle> = p.iter().map(|&i| self.handles[i]).collect();
                // single-premise additions carry the same rule name as the first justification, pairs another one
                let rule = if p.len() == 1 { "r" } else { "r2" };
                self.eng.tms_mut().add_logical_justification(self.handles[*h], rule.to_string(), ph.clone());
                self.tms.add_logical_justification(self.handles[*h], rule.to_string(), ph);
                self.facts[*h].justs.push(p.clone());
            }
            Op::FiringDeriveThenRetract(a) => {
                use rust_rule_engine::rete::ActionResult;
                let n = self.facts.len();
                let known: Vec<FactHandle> = self.eng.working_memory().get_all_handles();
                let ha = self.handles[*a];
                self.fire_script(vec![ActionResult::InsertLogicalFact { fact_type: "T".to_string(), data: Sys::data(n), rule_name: "r".to_string(), premises: vec![ha] }, ActionResult::Retract(ha)])?;
                // the derived fact existed for a moment: its handle is whatever the engine issued (it may already be gone)
                let newh: Vec<FactHandle> = self.eng.working_memory().get_all_handles().into_iter().filter(|h| !known.contains(h) && !self.handles.contains(h)).collect();
                let h = newh.first().copied().unwrap_or_else(|| FactHandle::new(1_000_000 + n as u64));
                self.tms.add_logical_justification(h, "r".to_string(), vec![ha]);
                self.handles.push(h);
                self.facts.push(MFact { explicit: false, directly_retracted: false, justs: vec![vec![*a]] });
                self.facts[*a].directly_retracted = true;
                let _ = self.tms.retract_with_cascade(ha);
            }
            Op::FiringRetractTwiceThenOther(a, b) => {
                use rust_rule_engine::rete::ActionResult;
                let (ha, hb) = (self.handles[*a], self.handles[*b]);
                self.fire_script(vec![ActionResult::Retract(ha), ActionResult::Retract(ha), ActionResult::Retract(hb)])?;
                self.facts[*a].directly_retracted = true;
                let _ = self.tms.retract_with_cascade(ha);
                // b may have been cascaded out with a: retracting it then fails, which is fine; otherwise it is retracted
                self.facts[*b].directly_retracted = true;
                let _ = self.tms.retract_with_cascade(hb);
            }
            Op::Retract(h) => {
                let r = self.eng.retract(self.handles[*h]);
                if let Err(e) = r {
                    return Err(Mismatch::new("retract_of_live_fact_failed", format!("retract(#{}) returned {:?}", h, e)));
                }
                self.facts[*h].directly_retracted = true;
                let cascade = self.tms.retract_with_cascade(self.handles[*h]);
                // the pure-TMS cascade list must name exactly the facts that vanished from working memory
                let obs = self.observe();
                let mut gone: Vec<usize> = (0..before.len()).filter(|&i| before[i] && !obs[i] && i != *h).collect();
                let mut casc: Vec<usize> = cascade.iter().filter_map(|c| self.handles.iter().position(|x| x == c)).collect();
                gone.sort();
                casc.sort();
                casc.dedup();
                if gone != casc {
                    return Err(Mismatch::new("cascade_list_differs", format!("retract_with_cascade returned {:?} but working memory lost {:?}", casc, gone)));
                }
            }
        }
        let obs = self.observe();
        if matches!(op, Op::InsertExplicit | Op::InsertLogical(_)) && obs.len() > before.len() && !obs[obs.len() - 1] {
            return Err(Mismatch::new("inserted_fact_absent", "a freshly inserted fact is not in working memory".to_string()));
        }
        self.check_state(&before, op, &obs)?;
        self.present = obs;
        let mut h = 7u64;
        for (i, p) in self.present.iter().enumerate() {
            h = hmix(h, (i as u64) << 1 | *p as u64);
        }
        Ok(h)
    }
    fn kind(op: &Op) -> String {
        match op {
            Op::InsertExplicit => "insert_explicit",
            Op::InsertLogical(p) if p.len() == 1 => "insert_logical_1",
            Op::InsertLogical(_) => "insert_logical_2",
            Op::AddJustification(..) => "add_justification",
            Op::Retract(_) => "retract",
            Op::FiringDeriveThenRetract(_) | Op::FiringRetractTwiceThenOther(..) => "rule_firing_with_several_results",
        }
        .to_string()
    }
    fn model_state(&self) -> u64 {
        let mut s = String::new();
        for (i, f) in self.facts.iter().enumerate() {
            s.push_str(&format!("{}{}{}{:?};", f.explicit as u8, f.directly_retracted as u8, self.present[i] as u8, f.justs));
        }
        hstr(&s)
    }
}

pub fn run(opts: &Opts) -> Vec<Report> {
    let mut out = vec![];
    let (d_full, d_single, d_chain) = match opts.tier {
        Tier::Quick => (7, 8, 9),
        Tier::Thorough => (8, 9, 10),
    };
    // (a) full alphabet: 1- and 2-premise insertions, second justifications with 1 or 2 premises
    if crate::props::wants(opts, "tms_full") {
        let mut cfg = Config::new("tms_full", d_full);
        cfg.ctx = json!({"max_facts": 5, "pair_premises": true, "addjust_pairs": true});
        cfg.expected_letters = ["insert_explicit", "insert_logical_1", "insert_logical_2", "add_justification", "retract"].iter().map(|s| s.to_string()).collect();
        let mut r = explore::explore(&|| Sys::new(5, true, true), &cfg);
        r.assumptions.push("<= 5 facts; premises are live when a justification is recorded; handles are never reused".into());
        out.push(r);
    }
    // (b) deeper, single-premise alphabet (chains, fans, mutual support, every retraction order)
    if crate::props::wants(opts, "tms_single") {
        let mut cfg = Config::new("tms_single", d_single);
        cfg.ctx = json!({"max_facts": 5, "pair_premises": false, "addjust_pairs": false});
        cfg.expected_letters = ["insert_explicit", "insert_logical_1", "add_justification", "retract"].iter().map(|s| s.to_string()).collect();
        out.push(explore::explore(&|| Sys::new(5, false, false), &cfg));
    }
    // (a') the same through rule firings whose action emits several results at once
    if crate::props::wants(opts, "tms_rule_firings") {
        let depth = if opts.tier == Tier::Quick { 7 } else { 8 };
        let mut cfg = Config::new("tms_rule_firings", depth);
        cfg.ctx = json!({"max_facts": 5, "rule_firings": true});
        cfg.expected_letters = ["insert_explicit", "insert_logical_1", "retract", "rule_firing_with_several_results"].iter().map(|s| s.to_string()).collect();
        let mut r = explore::explore(&|| Sys::new(5, false, false).with_rule_firings(), &cfg);
        r.bound = format!("all histories of length <= {} over insert_explicit / insert_logical(one premise) / add_justification / retract / a rule firing that derives a fact from a and retracts a / a rule firing that retracts a, retracts a again and retracts b; <= 5 facts", depth);
        out.push(r);
    }
    // (b') from a prepared support graph — three explicit facts 0, 1, 2, a derived fact 3 <- [0] and a fact 4 <- [3] that
    // rests on the derived one — every history over the single-premise alphabet: facts with three and more
    // justifications of which one goes through a derived premise, and every retraction order
    if crate::props::wants(opts, "tms_from_prepared_graph") {
        let depth = if opts.tier == Tier::Quick { 4 } else { 5 };
        let mut cfg = Config::new("tms_from_prepared_graph", depth);
        cfg.ctx = json!({"max_facts": 6, "prepared": "0, 1, 2 explicit; 3 <- [0]; 4 <- [3]"});
        cfg.expected_letters = ["add_justification", "retract"].iter().map(|s| s.to_string()).collect();
        let mut r = explore::explore(&prepared, &cfg);
        r.bound = format!("from the prepared graph (0, 1, 2 explicit; 3 <- [0]; 4 <- [3]): all histories of length <= {} over insert_explicit / insert_logical(one premise) / add_justification(one premise) / retract; <= 6 facts", depth);
        out.push(r);
    }
    // (c) families with up to 7 facts to depth 10: restricted alphabet (no second justifications in
    // quick; pairs only in insert) — every retraction order of every shape of <= 7 facts
    if crate::props::wants(opts, "tms_7facts") {
        let mut cfg = Config::new("tms_7facts", d_chain);
        cfg.ctx = json!({"max_facts": 7, "family": "single-premise insertions, every retraction order"});
        cfg.expected_letters = ["insert_explicit", "insert_logical_1", "retract"].iter().map(|s| s.to_string()).collect();
        out.push(explore::explore(&|| SysNoAdd(Sys::new(7, false, false)), &cfg));
    }
    out
}

fn prepared() -> Sys {
    let mut s = Sys::new(6, false, false);
    for op in [Op::InsertExplicit, Op::InsertExplicit, Op::InsertExplicit, Op::InsertLogical(vec![0]), Op::InsertLogical(vec![3])] {
        if let Err(m) = s.step(&op) {
            crate::explore::machinery(&format!("C08 prepared graph: {:?} -> {} {}", op, m.class, m.detail));
        }
    }
    s
}

/// Same system without `AddJustification` letters (keeps branching small for the 7-fact family).
pub struct SysNoAdd(Sys);
impl System for SysNoAdd {
    type Op = Op;
    fn enabled(&self) -> Vec<Op> {
        // families: at most 2 explicit roots, then only derived facts
        let explicit = self.0.facts.iter().filter(|f| f.explicit).count();
        self.0
            .enabled()
            .into_iter()
            .filter(|o| match o {
                Op::AddJustification(..) => false,
                Op::InsertExplicit => explicit < 2,
                _ => true,
            })
            .collect()
    }
    fn step(&mut self, op: &Op) -> Result<u64, Mismatch> {
        self.0.step(op)
    }
    fn kind(op: &Op) -> String {
        Sys::kind(op)
    }
    fn model_state(&self) -> u64 {
        self.0.model_state()
    }
}

pub fn replay(case: &serde_json::Value) -> crate::props::ReplayResult {
    let ch = crate::props::choices_of(case);
    let sub = case["sub"].as_str().unwrap_or("tms_full").to_string();
    let r = match sub.as_str() {
        "tms_single" => explore::replay(&|| Sys::new(5, false, false), &ch),
        "tms_from_prepared_graph" => explore::replay(&prepared, &ch),
        "tms_rule_firings" => explore::replay(&|| Sys::new(5, false, false).with_rule_firings(), &ch),
        "tms_7facts" => explore::replay(&|| SysNoAdd(Sys::new(7, false, false)), &ch),
        _ => explore::replay(&|| Sys::new(5, true, true), &ch),
    };
    crate::props::conv(r)
}
