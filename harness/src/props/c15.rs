//! C15 (a) — knowledge base lookups, order and version: complete sequential state graph.
//! (The concurrent half, C15 (b), lives in /verif/loomcrate and is driven by ./check as well.)
use crate::explore::{self, Config, Mismatch, System};
use crate::report::{hstr, Report};
use crate::Opts;
use rust_rule_engine::engine::knowledge_base::KnowledgeBase;
use rust_rule_engine::engine::rule::{Condition, ConditionGroup, Rule};
use rust_rule_engine::types::{ActionType, Operator, Value};
use serde_json::json;
use std::collections::{BTreeMap, BTreeSet};

const NAMES: [&str; 4] = ["A", "B", "C", "D"];
const SALIENCES: [i32; 3] = [0, 5, -1];

#[derive(Clone, Debug)]
pub enum Op {
    Add(usize, i32),
    Remove(usize),
    SetEnabled(usize, bool),
    Clear,
    /// `add_rules_from_grl` with a text of three rules (names by index, salience pattern by index): rules are added in
    /// text order up to the first one that is refused
    AddBatch([usize; 3], usize),
}

const BATCH_SALIENCES: [[i32; 3]; 3] = [[0, 5, -1], [5, 5, 0], [-1, 0, 5]];

pub fn mk_rule(name: &str, salience: i32) -> Rule {
    Rule::new(
        name.to_string(),
        ConditionGroup::single(Condition::new("X.v".to_string(), Operator::Equal, Value::Integer(1))),
        vec![ActionType::Set { field: "X.w".to_string(), value: Value::Integer(salience as i64) }],
    )
    .with_salience(salience)
}

pub struct Sys {
    kb: KnowledgeBase,
    model: Vec<(String, i32, bool)>, // descending salience, insertion order among equals
    last_version: u64,
    batches: bool,
}

impl Sys {
    pub fn new() -> Self {
        let kb = KnowledgeBase::new("kb");
        let v = kb.version();
        Sys { kb, model: vec![], last_version: v, batches: false }
    }
    /// the alphabet also holds the text / batch entry point
    pub fn with_batches() -> Self {
        let mut s = Sys::new();
        s.batches = true;
        s
    }
    fn observe(&self) -> Result<String, Mismatch> {
        let listed: Vec<(String, i32, bool)> = self.kb.get_rules().iter().map(|r| (r.name.clone(), r.salience, r.enabled)).collect();
        if listed != self.model {
            return Err(Mismatch::new("listing_differs", format!("get_rules() = {:?}, model (descending salience, insertion order among equals) = {:?}", listed, self.model)));
        }
        let snap: Vec<(String, i32, bool)> = self.kb.get_rules_snapshot().iter().map(|r| (r.name.clone(), r.salience, r.enabled)).collect();
        if snap != self.model {
            return Err(Mismatch::new("listing_differs", format!("get_rules_snapshot() = {:?}, model = {:?}", snap, self.model)));
        }
        let mut lookups = vec![];
        for n in NAMES {
            let got = self.kb.get_rule(n).map(|r| (r.name.clone(), r.salience, r.enabled));
            let exp = self.model.iter().find(|r| r.0 == n).cloned();
            if got != exp {
                return Err(Mismatch::new("lookup_differs", format!("get_rule({}) = {:?}, expected {:?}; listing {:?}", n, got, exp, self.model)));
            }
            lookups.push(got);
        }
        let names: BTreeSet<String> = self.kb.get_rule_names().into_iter().collect();
        let exp_names: BTreeSet<String> = self.model.iter().map(|r| r.0.clone()).collect();
        if names != exp_names || self.kb.get_rule_names().len() != exp_names.len() {
            return Err(Mismatch::new("names_differ", format!("get_rule_names() = {:?}, expected {:?}", self.kb.get_rule_names(), exp_names)));
        }
        if self.kb.rule_count() != self.model.len() {
            return Err(Mismatch::new("count_differs", format!("rule_count() = {}, expected {}", self.kb.rule_count(), self.model.len())));
        }
        let by_sal: Vec<Option<(String, i32, bool)>> = self.kb.get_rules_by_salience().into_iter().map(|i| self.kb.get_rule_by_index(i).map(|r| (r.name.clone(), r.salience, r.enabled))).collect();
        let exp_sal: Vec<Option<(String, i32, bool)>> = self.model.iter().cloned().map(Some).collect();
        if by_sal != exp_sal {
            return Err(Mismatch::new("salience_order_differs", format!("get_rules_by_salience() -> {:?}, expected {:?}", by_sal, exp_sal)));
        }
        let st = self.kb.get_statistics();
        let en = self.model.iter().filter(|r| r.2).count();
        let mut dist: BTreeMap<i32, usize> = BTreeMap::new();
        for r in &self.model {
            *dist.entry(r.1).or_insert(0) += 1;
        }
        let got_dist: BTreeMap<i32, usize> = st.priority_distribution.iter().map(|(k, v)| (*k, *v)).collect();
        if st.total_rules != self.model.len() || st.enabled_rules != en || st.disabled_rules != self.model.len() - en || got_dist != dist || st.version != self.kb.version() {
            return Err(Mismatch::new("statistics_differ", format!("get_statistics() = {:?}, model {:?}", st, self.model)));
        }
        Ok(format!("{:?}|{:?}|{:?}", listed, lookups, names))
    }
}

impl System for Sys {
    type Op = Op;
    fn enabled(&self) -> Vec<Op> {
        let mut v = vec![];
        for n in 0..NAMES.len() {
            for s in SALIENCES {
                v.push(Op::Add(n, s));
            }
        }
        for n in 0..NAMES.len() {
            v.push(Op::Remove(n));
        }
        for n in 0..NAMES.len() {
            v.push(Op::SetEnabled(n, false));
            v.push(Op::SetEnabled(n, true));
        }
        v.push(Op::Clear);
        if self.batches {
            for a in 0..3usize {
                for b in 0..3usize {
                    for c in 0..3usize {
                        for p in 0..BATCH_SALIENCES.len() {
                            v.push(Op::AddBatch([a, b, c], p));
                        }
                    }
                }
            }
        }
        v
    }
    fn step(&mut self, op: &Op) -> Result<u64, Mismatch> {
        let before = self.observe()?;
        let v0 = self.kb.version();
        let mut must_grow = false;
        match op {
            Op::Add(n, s) => {
                let name = NAMES[*n];
                let r = self.kb.add_rule(mk_rule(name, *s));
                let dup = self.model.iter().any(|x| x.0 == name);
                if dup {
                    if r.is_ok() {
                        return Err(Mismatch::new("duplicate_accepted", format!("add_rule({}) succeeded although the name exists", name)));
                    }
                    let after = self.observe().map_err(|m| Mismatch::new("duplicate_had_effect", m.detail))?;
                    if after != before || self.kb.version() != v0 {
                        return Err(Mismatch::new("duplicate_had_effect", format!("rejected duplicate add_rule({}) changed the knowledge base", name)));
                    }
                } else {
                    if let Err(e) = r {
                        return Err(Mismatch::new("add_failed", format!("add_rule({}) failed: {:?}", name, e)));
                    }
                    let pos = self.model.iter().position(|x| x.1 < *s).unwrap_or(self.model.len());
                    self.model.insert(pos, (name.to_string(), *s, true));
                    must_grow = true;
                }
            }
            Op::Remove(n) => {
                let name = NAMES[*n];
                let r = self.kb.remove_rule(name);
                let present = self.model.iter().any(|x| x.0 == name);
                match r {
                    Ok(b) if b == present => {}
                    other => return Err(Mismatch::new("remove_result", format!("remove_rule({}) = {:?}, rule present = {}", name, other, present))),
                }
                self.model.retain(|x| x.0 != name);
                must_grow = present;
            }
            Op::SetEnabled(n, b) => {
                let name = NAMES[*n];
                let r = self.kb.set_rule_enabled(name, *b);
                let present = self.model.iter().any(|x| x.0 == name);
                match r {
                    Ok(x) if x == present => {}
                    other => return Err(Mismatch::new("set_enabled_result", format!("set_rule_enabled({}, {}) = {:?}, rule present = {}", name, b, other, present))),
                }
                for x in self.model.iter_mut() {
                    if x.0 == name {
                        must_grow = x.2 != *b;
                        x.2 = *b;
                    }
                }
            }
            Op::Clear => {
                self.kb.clear();
                must_grow = !self.model.is_empty();
                self.model.clear();
            }
            Op::AddBatch(names, p) => {
                let sal = BATCH_SALIENCES[*p];
                let text: String = (0..3).map(|i| format!("rule \"{}\" salience {} {{ when X.v == 1 then X.w = {}; }}\n", NAMES[names[i]], sal[i], i)).collect();
                let r = self.kb.add_rules_from_grl(&text);
                let mut refused = false;
                for i in 0..3 {
                    let name = NAMES[names[i]];
                    if self.model.iter().any(|x| x.0 == name) {
                        refused = true;
                        break;
                    }
                    let pos = self.model.iter().position(|x| x.1 < sal[i]).unwrap_or(self.model.len());
                    self.model.insert(pos, (name.to_string(), sal[i], true));
                    must_grow = true;
                }
                match (&r, refused) {
                    (Ok(3), false) | (Err(_), true) => {}
                    _ => return Err(Mismatch::new(if refused { "duplicate_accepted" } else { "add_failed" }, format!("add_rules_from_grl({:?}) = {:?}, a rule of the text is a duplicate: {}", text, r, refused))),
                }
            }
        }
        let after = self.observe()?;
        let v1 = self.kb.version();
        if v1 < v0 || (must_grow && v1 <= v0) {
            return Err(Mismatch::new("version_not_growing", format!("{:?}: version {} -> {} (successful change: {})", op, v0, v1, must_grow)));
        }
        self.last_version = v1;
        Ok(hstr(&after))
    }
    fn kind(op: &Op) -> String {
        match op {
            Op::Add(..) => "add",
            Op::Remove(_) => "remove",
            Op::SetEnabled(..) => "set_enabled",
            Op::Clear => "clear",
            Op::AddBatch(..) => "add_from_text",
        }
        .to_string()
    }
    fn model_state(&self) -> u64 {
        hstr(&format!("{:?}", self.model))
    }
    fn fingerprint(&self) -> Option<u64> {
        // vector (get_rules), index (get_rule for the whole name universe + get_rule_names) — the
        // version is compared as a delta per step and deliberately not part of the state
        self.observe().ok().map(|s| hstr(&s))
    }
}

// ------------------------------------------------------------------------------------------------
// a knowledge base and its clone are independent objects

#[derive(Clone, Debug)]
pub enum PairOp {
    On(usize, Op),
    CloneFirst,
}

pub struct PairSys {
    kbs: Vec<Sys>,
}

impl PairSys {
    pub fn new() -> Self {
        PairSys { kbs: vec![Sys::new()] }
    }
}

impl System for PairSys {
    type Op = PairOp;
    fn enabled(&self) -> Vec<PairOp> {
        let inner = [Op::Add(0, 5), Op::Add(1, 0), Op::Add(2, 5), Op::Remove(0), Op::Remove(1), Op::SetEnabled(1, false), Op::Clear];
        let mut v = vec![];
        for t in 0..self.kbs.len() {
            for o in &inner {
                v.push(PairOp::On(t, o.clone()));
            }
        }
        if self.kbs.len() == 1 {
            v.push(PairOp::CloneFirst);
        }
        v
    }
    fn step(&mut self, op: &PairOp) -> Result<u64, Mismatch> {
        let h = match op {
            PairOp::On(t, o) => self.kbs[*t].step(o)?,
            PairOp::CloneFirst => {
                let kb = self.kbs[0].kb.clone();
                let model = self.kbs[0].model.clone();
                let v = kb.version();
                self.kbs.push(Sys { kb, model, last_version: v, batches: false });
                7
            }
        };
        // the object that was not touched still shows exactly its own rules
        for (i, k) in self.kbs.iter().enumerate() {
            k.observe().map_err(|m| Mismatch::tagged(&m.class, format!("{} after {:?}: {}", if i == 0 { "original" } else { "clone" }, op, m.detail), &["knowledge_base_and_its_clone"]))?;
        }
        Ok(h)
    }
    fn kind(op: &PairOp) -> String {
        match op {
            PairOp::On(_, o) => Sys::kind(o),
            PairOp::CloneFirst => "clone".to_string(),
        }
    }
    fn model_state(&self) -> u64 {
        hstr(&format!("{:?}", self.kbs.iter().map(|k| &k.model).collect::<Vec<_>>()))
    }
}

pub fn run(opts: &Opts) -> Vec<Report> {
    let mut out = vec![];
    if crate::props::wants(opts, "kb_and_clone_histories") {
        let depth = if opts.tier == crate::Tier::Quick { 5 } else { 6 };
        let mut cfg = Config::new("kb_and_clone_histories", depth);
        cfg.expected_letters = ["add", "remove", "set_enabled", "clear", "clone"].iter().map(|s| s.to_string()).collect();
        let mut r = explore::explore(&PairSys::new, &cfg);
        r.bound = format!("all histories of length <= {} over add(A|C salience 5, B salience 0) / remove(A|B) / disable(B) / clear on a knowledge base and, once taken, on its clone; after every step both objects are observed in full", depth);
        out.push(r);
    }
    if crate::props::wants(opts, "kb_closure") {
        let mut cfg = Config::new("kb_closure", 40);
        cfg.ctx = json!({"names": NAMES, "saliences": SALIENCES});
        cfg.expected_letters = ["add", "remove", "set_enabled", "clear"].iter().map(|s| s.to_string()).collect();
        let mut r = explore::closure(&Sys::new, &cfg);
        if r.get("closed") != 1 {
            r.notes.push("MACHINERY: knowledge-base state graph did not close".to_string());
        }
        out.push(r);
    }
    if crate::props::wants(opts, "kb_closure_with_text_loading") {
        let mut cfg = Config::new("kb_closure_with_text_loading", 40);
        cfg.ctx = json!({"names": NAMES, "saliences": SALIENCES, "batch_saliences": BATCH_SALIENCES});
        cfg.expected_letters = ["add", "remove", "set_enabled", "clear", "add_from_text"].iter().map(|s| s.to_string()).collect();
        let mut r = explore::closure(&Sys::with_batches, &cfg);
        if r.get("closed") != 1 {
            r.notes.push("MACHINERY: knowledge-base state graph (with text loading) did not close".to_string());
        }
        r.bound = format!("{}; plus add_rules_from_grl with every text of three rules over the names A, B, C (repeats allowed) x 3 salience patterns {:?} — rules are added in text order up to the first refused one", r.bound, BATCH_SALIENCES);
        out.push(r);
    }
    out
}

pub fn replay(case: &serde_json::Value) -> crate::props::ReplayResult {
    let ch = crate::props::choices_of(case);
    if case["sub"].as_str() == Some("kb_closure_with_text_loading") {
        return crate::props::conv(explore::replay(&Sys::with_batches, &ch));
    }
    if case["sub"].as_str() == Some("kb_and_clone_histories") {
        return crate::props::conv(explore::replay(&PairSys::new, &ch));
    }
    crate::props::conv(explore::replay(&Sys::new, &ch))
}
