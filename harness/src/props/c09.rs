//! C09 — backward chaining is sound, and complete for bounded conjunctive proofs.
//! C10 (b) — a failed proof leaves the caller's facts untouched (same enumeration, other oracle).
//!
//! Small-scope enumeration of *set-once Horn programs*: every rule set up to a size over a small
//! field signature, every initial fact set, every atomic goal, every configuration; each case is run
//! through the real BackwardEngine and compared with a reference forward closure.
use crate::report::{hstr, Report, Violation};
use crate::{Opts, Tier};
use rust_rule_engine::backward::backward_engine::{BackwardConfig, BackwardEngine};
use rust_rule_engine::backward::search::SearchStrategy;
use rust_rule_engine::engine::facts::Facts;
use rust_rule_engine::engine::knowledge_base::KnowledgeBase;
use rust_rule_engine::engine::rule::{Condition, ConditionGroup, Rule};
use rust_rule_engine::parser::grl::GRLParser;
use rust_rule_engine::types::{ActionType, Operator, Value};
use serde_json::json;
use std::collections::{BTreeMap, BTreeSet};
use std::sync::atomic::{AtomicUsize, Ordering};
use std::time::Instant;

pub const FIELDS: [&str; 6] = ["a", "b", "c", "g", "d", "e"];

#[derive(Clone, Copy, Debug, PartialEq, Eq, PartialOrd, Ord)]
pub enum Body {
    One(usize),
    And(usize, usize),
    Or(usize, usize),
}

#[derive(Clone, Copy, Debug, PartialEq, Eq, PartialOrd, Ord)]
pub struct HRule {
    pub body: Body,
    pub head: usize,
    pub value: bool,
}

impl HRule {
    pub fn grl(&self, name: &str) -> String {
        if encoding() != 0 {
            let atom = |i: usize| format!("F.{} == {}", FIELDS[i], enc_text_f(i, true));
            let body = match self.body {
                Body::One(x) => atom(x),
                Body::And(x, y) => format!("{} && {}", atom(x), atom(y)),
                Body::Or(x, y) => format!("{} || {}", atom(x), atom(y)),
            };
            return format!("rule \"{}\" {{ when {} then F.{} = {}; }}", name, body, FIELDS[self.head], enc_text_f(self.head, self.value));
        }
        let atom = |i: usize| format!("F.{} == true", FIELDS[i]);
        let body = match self.body {
            Body::One(x) => atom(x),
            Body::And(x, y) => format!("{} && {}", atom(x), atom(y)),
            Body::Or(x, y) => format!("{} || {}", atom(x), atom(y)),
        };
        format!("rule \"{}\" {{ when {} then F.{} = {}; }}", name, body, FIELDS[self.head], self.value)
    }
    pub fn build(&self, name: &str) -> Rule {
        let atom = |i: usize| ConditionGroup::single(Condition::new(format!("F.{}", FIELDS[i]), Operator::Equal, enc_value_f(i, true)));
        let body = match self.body {
            Body::One(x) => atom(x),
            Body::And(x, y) => ConditionGroup::and(atom(x), atom(y)),
            Body::Or(x, y) => ConditionGroup::or(atom(x), atom(y)),
        };
        Rule::new(name.to_string(), body, vec![ActionType::Set { field: format!("F.{}", FIELDS[self.head]), value: enc_value_f(self.head, self.value) }])
    }
    fn body_fields(&self) -> Vec<usize> {
        match self.body {
            Body::One(x) => vec![x],
            Body::And(x, y) | Body::Or(x, y) => vec![x, y],
        }
    }
    fn conjunctive(&self) -> bool {
        !matches!(self.body, Body::Or(..))
    }
}

pub fn all_rules(nf: usize) -> Vec<HRule> {
    let mut bodies = vec![];
    for x in 0..nf {
        bodies.push(Body::One(x));
    }
    for x in 0..nf {
        for y in x + 1..nf {
            bodies.push(Body::And(x, y));
        }
    }
    for x in 0..nf {
        for y in x + 1..nf {
            bodies.push(Body::Or(x, y));
        }
    }
    let mut v = vec![];
    for b in bodies {
        for head in 0..nf {
            for value in [true, false] {
                v.push(HRule { body: b, head, value });
            }
        }
    }
    v
}

/// Some(closure) when the forward closure is unique (set-once program that never contradicts the
/// initial facts); values: field -> bool
pub fn closure(prog: &[HRule], init: u32, nf: usize) -> Option<BTreeMap<usize, bool>> {
    // set-once: one value per head field, and never `false` for an initially true field / never any
    // assignment that flips a value
    let mut assigned: BTreeMap<usize, bool> = BTreeMap::new();
    for r in prog {
        if let Some(v) = assigned.get(&r.head) {
            if *v != r.value {
                return None;
            }
        }
        assigned.insert(r.head, r.value);
        if init & (1 << r.head) != 0 && !r.value {
            return None;
        }
    }
    let mut m: BTreeMap<usize, bool> = (0..nf).filter(|i| init & (1 << i) != 0).map(|i| (i, true)).collect();
    loop {
        let mut changed = false;
        for r in prog {
            let t = |x: usize| m.get(&x) == Some(&true);
            let body = match r.body {
                Body::One(x) => t(x),
                Body::And(x, y) => t(x) && t(y),
                Body::Or(x, y) => t(x) || t(y),
            };
            if body && m.get(&r.head) != Some(&r.value) {
                m.insert(r.head, r.value);
                changed = true;
            }
        }
        if !changed {
            break;
        }
    }
    Some(m)
}

/// minimal derivation height of `F.y == v` through conjunctive rules only (usize::MAX = none)
pub fn height(prog: &[HRule], init: u32, nf: usize, y: usize, v: bool) -> usize {
    const INF: usize = usize::MAX;
    // heights of `F.x == true`
    let mut h: Vec<usize> = (0..nf).map(|i| if init & (1 << i) != 0 { 0 } else { INF }).collect();
    loop {
        let mut changed = false;
        for r in prog {
            if !r.conjunctive() || !r.value {
                continue;
            }
            let hb = r.body_fields().iter().map(|&x| h[x]).max().unwrap();
            if hb != INF && hb + 1 < h[r.head] {
                h[r.head] = hb + 1;
                changed = true;
            }
        }
        if !changed {
            break;
        }
    }
    if v {
        h[y]
    } else {
        // `F.y == false`: one conjunctive rule concluding false whose body atoms are derivable
        prog.iter()
            .filter(|r| r.conjunctive() && r.head == y && !r.value)
            .map(|r| r.body_fields().iter().map(|&x| h[x]).max().unwrap())
            .filter(|&hb| hb != INF)
            .map(|hb| hb + 1)
            .min()
            .unwrap_or(INF)
    }
}

#[derive(Clone, Copy, Debug, PartialEq)]
pub struct Cfg {
    pub strategy: u8, // 0 dfs 1 bfs 2 iterative
    pub max_depth: usize,
    pub max_solutions: usize,
    /// the query goes through query_with_rete_engine with an (empty) incremental engine attached
    pub with_rete: bool,
    /// the goal literal is written as a quoted string ("true" / "false"): a string never equals a boolean fact
    pub quoted_goal: bool,
}

impl Cfg {
    fn name(&self) -> String {
        format!("{}(depth {}, solutions {}{}{})", ["DFS", "BFS", "Iterative"][self.strategy as usize], self.max_depth, self.max_solutions, if self.with_rete { ", RETE engine attached" } else { "" }, if self.quoted_goal { ", quoted goal literal" } else { "" })
    }
    fn to_config(self) -> BackwardConfig {
        BackwardConfig {
            max_depth: self.max_depth,
            strategy: match self.strategy {
                0 => SearchStrategy::DepthFirst,
                1 => SearchStrategy::BreadthFirst,
                _ => SearchStrategy::Iterative,
            },
            enable_memoization: false,
            max_solutions: self.max_solutions,
        }
    }
}

/// How the truth of a field is written in rules, facts and goals: 0 = the booleans true / false (the default),
/// 1 = the integers 5 / 0, 2 = the strings "on" / "off", 3 = the strings "a >= b" / "no" (operator characters inside a
/// string literal). The Horn
/// structure and its closure are the same under every encoding.
static ENCODING: std::sync::atomic::AtomicU8 = std::sync::atomic::AtomicU8::new(0);

pub fn encoding() -> u8 {
    ENCODING.load(std::sync::atomic::Ordering::SeqCst)
}

pub fn set_encoding(e: u8) {
    ENCODING.store(e, std::sync::atomic::Ordering::SeqCst)
}

/// encoding 4: the fields in this mask (fields that no rule derives) are written as integers, all others as booleans
static INT_FIELDS: std::sync::atomic::AtomicU32 = std::sync::atomic::AtomicU32::new(0);

fn int_typed(field: usize) -> bool {
    encoding() == 4 && INT_FIELDS.load(std::sync::atomic::Ordering::SeqCst) & (1 << field) != 0
}

pub fn enc_value_f(field: usize, v: bool) -> Value {
    if encoding() == 4 {
        return if int_typed(field) { Value::Integer(if v { 5 } else { 0 }) } else { Value::Boolean(v) };
    }
    enc_value(v)
}

pub fn enc_text_f(field: usize, v: bool) -> String {
    if encoding() == 4 {
        return if int_typed(field) { (if v { "5" } else { "0" }).to_string() } else { v.to_string() };
    }
    enc_text(v)
}

pub fn enc_value(v: bool) -> Value {
    match (encoding(), v) {
        (1, true) => Value::Integer(5),
        (1, false) => Value::Integer(0),
        (2, true) => Value::String("on".to_string()),
        (2, false) => Value::String("off".to_string()),
        (3, true) => Value::String("a >= b".to_string()),
        (3, false) => Value::String("no".to_string()),
        (_, b) => Value::Boolean(b),
    }
}

pub fn enc_text(v: bool) -> String {
    match (encoding(), v) {
        (1, true) => "5".to_string(),
        (1, false) => "0".to_string(),
        (2, true) => "\"on\"".to_string(),
        (2, false) => "\"off\"".to_string(),
        (3, true) => "\"a >= b\"".to_string(),
        (3, false) => "\"no\"".to_string(),
        (_, b) => b.to_string(),
    }
}

pub fn mk_facts(init: u32, nf: usize) -> Facts {
    let f = Facts::new();
    for i in 0..nf {
        if init & (1 << i) != 0 {
            f.set(&format!("F.{}", FIELDS[i]), enc_value_f(i, true));
        }
    }
    f
}

fn facts_map(f: &Facts) -> BTreeMap<String, String> {
    f.get_all_facts().into_iter().map(|(k, v)| (k, format!("{:?}", v))).collect()
}

#[derive(PartialEq, Clone, Copy)]
pub enum Mode {
    Soundness, // C09
    FailedProofs, // C10 (b)
}

pub struct Case<'a> {
    pub kb: &'a KnowledgeBase,
    pub prog: &'a [HRule],
    pub grl: Option<&'a str>,
    pub nf: usize,
    pub init: u32,
    pub goal: (usize, bool),
    pub cfg: Cfg,
}

pub enum Verdict {
    Ok { provable: bool, nontrivial: bool },
    Undefined,
    Panic(String),
    Bad { class: &'static str, detail: String, tags: Vec<String> },
}

/// Run one (program, facts, goal, configuration) case against the real engine.
pub fn run_case(c: &Case, mode: Mode) -> Verdict {
    let Some(cl) = closure(c.prog, c.init, c.nf) else { return Verdict::Undefined };
    let (y, v) = c.goal;
    let truth = !c.cfg.quoted_goal && cl.get(&y) == Some(&v);
    let q = if c.cfg.quoted_goal { format!("F.{} == \"{}\"", FIELDS[y], v) } else { format!("F.{} == {}", FIELDS[y], enc_text_f(y, v)) };
    let mut facts = mk_facts(c.init, c.nf);
    let before = facts_map(&facts);
    let kb = c.kb.clone();
    let cfg = c.cfg;
    let r = std::panic::catch_unwind(std::panic::AssertUnwindSafe(|| {
        let mut e = BackwardEngine::with_config(kb, cfg.to_config());
        if cfg.with_rete {
            let rete = std::sync::Arc::new(std::sync::Mutex::new(rust_rule_engine::rete::propagation::IncrementalEngine::new()));
            e.query_with_rete_engine(&q, &mut facts, Some(rete))
        } else {
            e.query(&q, &mut facts)
        }
    }));
    let res = match r {
        Err(_) => return Verdict::Panic(crate::explore::take_panic()),
        Ok(Err(e)) => return Verdict::Bad { class: "query_error", detail: format!("query({}) = Err({:?})", q, e), tags: vec![] },
        Ok(Ok(r)) => r,
    };
    let after = facts_map(&facts);
    let mut tags = vec![format!("strategy_{}", ["dfs", "bfs", "iterative"][cfg.strategy as usize])];
    if cfg.max_solutions > 1 {
        tags.push("max_solutions_gt_1".into());
    }
    match encoding() {
        1 => tags.push("truth_written_as_integer".into()),
        2 => tags.push("truth_written_as_string".into()),
        3 => tags.push("truth_written_as_string_with_operator_characters".into()),
        4 => tags.push("underived_fields_written_as_integers".into()),
        _ => {}
    }
    let h = height(c.prog, c.init, c.nf, y, v);
    match mode {
        Mode::Soundness => {
            if res.provable {
                let held = !cfg.quoted_goal && facts.get(&format!("F.{}", FIELDS[y])) == Some(enc_value_f(y, v));
                if !truth {
                    return Verdict::Bad { class: "provable_but_goal_false_in_closure", detail: format!("{} reports `{}` provable, but the forward closure of the rules on the initial facts is {:?}", cfg.name(), q, cl), tags };
                }
                if !held {
                    return Verdict::Bad { class: "provable_but_goal_false_in_returned_facts", detail: format!("{} reports `{}` provable, but the facts handed back are {:?}", cfg.name(), q, after), tags };
                }
            } else if !cfg.quoted_goal && cfg.strategy == 0 && cfg.max_solutions == 1 && h != usize::MAX && h <= cfg.max_depth {
                return Verdict::Bad { class: "derivable_goal_not_proved", detail: format!("{} reports `{}` not provable although it has a conjunctive derivation of height {} <= max_depth {}", cfg.name(), q, h, cfg.max_depth), tags };
            }
        }
        Mode::FailedProofs => {
            if !res.provable && after != before {
                return Verdict::Bad { class: "failed_proof_changed_facts", detail: format!("{} reports `{}` not provable but the facts changed: before {:?}, after {:?}", cfg.name(), q, before, after), tags };
            }
        }
    }
    // non-trivial: the verdict needed at least one rule application, or a derivable-looking goal had to be refused
    let nontrivial = (res.provable && h != 0) || (!res.provable && c.prog.iter().any(|r| r.head == y));
    Verdict::Ok { provable: res.provable, nontrivial }
}

fn configs(tier: Tier, small: bool) -> Vec<Cfg> {
    let mut v = vec![];
    let depths: Vec<usize> = if small || tier == Tier::Quick { vec![0, 1, 2, 6] } else { (0..=6).collect() };
    for d in depths {
        for s in [1usize, 3] {
            v.push(Cfg { strategy: 0, max_depth: d, max_solutions: s, with_rete: false, quoted_goal: false });
        }
    }
    for st in [1u8, 2u8] {
        for d in if tier == Tier::Quick { vec![6] } else { vec![2, 6] } {
            v.push(Cfg { strategy: st, max_depth: d, max_solutions: 1, with_rete: false, quoted_goal: false });
        }
    }
    // the secondary entry point (an incremental engine attached) and a quoted goal literal, at full depth
    for st in [0u8, 1u8] {
        v.push(Cfg { strategy: st, max_depth: 6, max_solutions: 1, with_rete: true, quoted_goal: false });
    }
    v.push(Cfg { strategy: 0, max_depth: 6, max_solutions: 3, with_rete: true, quoted_goal: false });
    v.push(Cfg { strategy: 0, max_depth: 6, max_solutions: 1, with_rete: false, quoted_goal: true });
    v.push(Cfg { strategy: 0, max_depth: 6, max_solutions: 3, with_rete: false, quoted_goal: true });
    v
}

fn describe(prog: &[HRule], nf: usize, init: u32, goal: (usize, bool), cfg: Cfg, via_grl: bool) -> serde_json::Value {
    json!({
        "sub": "horn",
        "rules": prog.iter().enumerate().map(|(i, r)| r.grl(&format!("R{}", i))).collect::<Vec<_>>(),
        "prog": prog.iter().map(|r| { let (k, x, y) = match r.body { Body::One(x) => (0, x, x), Body::And(x, y) => (1, x, y), Body::Or(x, y) => (2, x, y) }; json!([k, x, y, r.head, r.value]) }).collect::<Vec<_>>(),
        "fields": nf,
        "initial_true": (0..nf).filter(|i| init & (1 << i) != 0).map(|i| format!("F.{}", FIELDS[i])).collect::<Vec<_>>(),
        "init": init,
        "goal": format!("F.{} == {}", FIELDS[goal.0], enc_text(goal.1)),
        "encoding": encoding(),
        "int_fields": INT_FIELDS.load(std::sync::atomic::Ordering::SeqCst),
        "goal_idx": [goal.0, goal.1 as usize],
        "config": {"strategy": cfg.strategy, "max_depth": cfg.max_depth, "max_solutions": cfg.max_solutions, "with_rete": cfg.with_rete, "quoted_goal": cfg.quoted_goal},
        "via_grl": via_grl,
    })
}

fn kb_of(prog: &[HRule], via_grl: bool) -> KnowledgeBase {
    let kb = KnowledgeBase::new("kb");
    if via_grl {
        let text: Vec<String> = prog.iter().enumerate().map(|(i, r)| r.grl(&format!("R{}", i))).collect();
        let rules = GRLParser::parse_rules(&text.join("\n")).unwrap_or_else(|e| crate::explore::machinery(&format!("C09 GRL program does not parse: {:?}\n{}", e, text.join("\n"))));
        if rules.len() != prog.len() {
            crate::explore::machinery("C09 GRL program parsed to a different number of rules");
        }
        for r in rules {
            kb.add_rule(r).unwrap();
        }
    } else {
        for (i, r) in prog.iter().enumerate() {
            kb.add_rule(r.build(&format!("R{}", i))).unwrap();
        }
    }
    kb
}

/// run every (facts, goal, config) for one program
fn run_program(prog: &[HRule], nf: usize, cfgs: &[Cfg], via_grl: bool, mode: Mode, rep: &mut Report, nontrivial: &mut BTreeSet<u64>) {
    let kb = kb_of(prog, via_grl);
    rep.count("programs", 1);
    for init in 0..(1u32 << nf) {
        if closure(prog, init, nf).is_none() {
            rep.count("undefined", (2 * nf * cfgs.len()) as u64);
            continue;
        }
        for y in 0..nf {
            for v in [true, false] {
                for cfg in cfgs {
                    let case = Case { kb: &kb, prog, grl: None, nf, init, goal: (y, v), cfg: *cfg };
                    rep.count("evaluations", 1);
                    match run_case(&case, mode) {
                        Verdict::Ok { provable, nontrivial: nt } => {
                            if nt {
                                nontrivial.insert(hstr(&format!("{:?}|{}|{}|{}", prog, init, y, v)));
                            }
                            rep.count(if provable { "provable" } else { "not_provable" }, 1);
                        }
                        Verdict::Undefined => rep.count("undefined", 1),
                        Verdict::Panic(m) => {
                            // a panic is not a verdict of this property (observation, counted)
                            rep.count("panics_caught", 1);
                            if !rep.notes.iter().any(|n| n.starts_with("observation: panic")) {
                                rep.notes.push(format!("observation: panic during a query ({}): {}", cfg.name(), m));
                            }
                        }
                        Verdict::Bad { class, detail, mut tags } => {
                            // counterfactual for the multi-solution finding: same case with max_solutions = 1
                            if cfg.max_solutions > 1 && class == "provable_but_goal_false_in_returned_facts" {
                                let c1 = Case { cfg: Cfg { max_solutions: 1, ..*cfg }, ..Case { kb: &kb, prog, grl: None, nf, init, goal: (y, v), cfg: *cfg } };
                                if matches!(run_case(&c1, mode), Verdict::Ok { .. }) {
                                    tags.push("passes_with_max_solutions_1".into());
                                }
                            }
                            rep.violation(Violation { class: class.to_string(), detail, tags, case: describe(prog, nf, init, (y, v), *cfg, via_grl) });
                        }
                    }
                }
            }
        }
    }
}

/// parameterised families with up to 8 rules, loaded through the GRL parser
fn families() -> Vec<(String, Vec<HRule>, usize)> {
    let mut out = vec![];
    let one = |x, head, value| HRule { body: Body::One(x), head, value };
    // chains e -> d -> c -> b -> a -> g of length 1..5, with one wrong-valued link at each position
    for len in 1..=5usize {
        let order = [4usize, 5, 2, 1, 0, 3]; // d e c b a g as indices into FIELDS (d=4, e=5)
        let chain: Vec<usize> = order[order.len() - 1 - len..].to_vec();
        let base: Vec<HRule> = (0..len).map(|i| one(chain[i], chain[i + 1], true)).collect();
        out.push((format!("chain{}", len), base.clone(), 6));
        for w in 0..len {
            let mut p = base.clone();
            p[w].value = false;
            out.push((format!("chain{}_wrong_link{}", len, w), p, 6));
        }
        // reversed rule order (goal rule first)
        let mut rev = base.clone();
        rev.reverse();
        out.push((format!("chain{}_reversed", len), rev, 6));
    }
    // diamond: a -> b, a -> c, b && c -> g ; shared sub-goal; dead end first; wrong value first
    out.push(("diamond".into(), vec![one(0, 1, true), one(0, 2, true), HRule { body: Body::And(1, 2), head: 3, value: true }], 4));
    out.push(("diamond_or".into(), vec![one(0, 1, true), one(0, 2, true), HRule { body: Body::Or(1, 2), head: 3, value: true }], 4));
    out.push(("shared_subgoal".into(), vec![one(0, 1, true), HRule { body: Body::And(1, 0), head: 2, value: true }, HRule { body: Body::And(1, 2), head: 3, value: true }], 4));
    // a conjunct that already holds (never derived) written before / after a conjunct that has to be derived
    out.push(("leaf_conjunct_first".into(), vec![one(0, 1, true), HRule { body: Body::And(0, 1), head: 3, value: true }], 4));
    out.push(("leaf_conjunct_first_two_leaves".into(), vec![one(2, 1, true), HRule { body: Body::And(0, 1), head: 3, value: true }], 4));
    out.push(("leaf_conjunct_last_two_leaves".into(), vec![one(2, 1, true), HRule { body: Body::And(1, 0), head: 3, value: true }], 4));
    out.push(("dead_end_first".into(), vec![one(4, 3, true), one(0, 1, true), one(1, 3, true)], 5));
    out.push(("wrong_value_first".into(), vec![one(0, 3, false), one(1, 0, true)], 4));
    out.push(("subgoal_proved_parent_fails".into(), vec![one(0, 3, false), one(1, 0, true), one(2, 1, true)], 4));
    out.push(("cycle2".into(), vec![one(0, 1, true), one(1, 0, true), one(1, 3, true)], 4));
    out.push(("cycle3".into(), vec![one(0, 1, true), one(1, 2, true), one(2, 0, true), one(2, 3, true)], 4));
    out.push(("cycle_with_exit".into(), vec![one(3, 0, true), one(0, 3, true), one(1, 0, true)], 4));
    out.push((
        "eight_rules".into(),
        vec![one(4, 5, true), one(5, 2, true), one(2, 1, true), one(1, 0, true), one(0, 3, true), HRule { body: Body::And(4, 5), head: 1, value: true }, HRule { body: Body::Or(2, 4), head: 0, value: true }, one(3, 3, true)],
        6,
    ));
    out
}

pub fn run_mode(opts: &Opts, mode: Mode) -> Vec<Report> {
    let mut out = vec![];
    let quick = opts.tier == Tier::Quick;
    // (1) all programs of <= 2 rules over 4 fields (quick: 3 fields), via the Rule builder
    let plan: Vec<(&str, usize, usize)> = if quick { vec![("horn_le2_rules_3_fields", 3, 2), ("horn_le1_rule_4_fields", 4, 1)] } else { vec![("horn_le2_rules_4_fields", 4, 2), ("horn_le3_rules_3_fields", 3, 3)] };
    for (name, nf, max_rules) in plan {
        if !crate::props::wants(opts, name) {
            continue;
        }
        let t0 = Instant::now();
        let rules = all_rules(nf);
        let mut progs: Vec<Vec<HRule>> = vec![vec![]];
        for r in &rules {
            progs.push(vec![*r]);
        }
        if max_rules >= 2 {
            for a in &rules {
                for b in &rules {
                    if a != b {
                        progs.push(vec![*a, *b]);
                    }
                }
            }
        }
        if max_rules >= 3 {
            // three distinct rules, modulo order of the last two only when identical heads... keep all ordered triples of distinct rules whose heads are not all equal
            for a in &rules {
                for b in &rules {
                    for c in &rules {
                        if a != b && b != c && a != c && a < b {
                            progs.push(vec![*a, *b, *c]);
                            progs.push(vec![*c, *a, *b]);
                        }
                    }
                }
            }
        }
        let cfgs = configs(opts.tier, max_rules >= 3);
        let next = AtomicUsize::new(0);
        let nthreads = crate::threads();
        let reports: Vec<(Report, BTreeSet<u64>)> = std::thread::scope(|sc| {
            let mut hs = vec![];
            for _ in 0..nthreads {
                hs.push(sc.spawn(|| {
                    let mut rep = Report::new(name);
                    let mut nt = BTreeSet::new();
                    loop {
                        let k = next.fetch_add(1, Ordering::SeqCst);
                        if k >= progs.len() {
                            break;
                        }
                        run_program(&progs[k], nf, &cfgs, false, mode, &mut rep, &mut nt);
                    }
                    (rep, nt)
                }));
            }
            hs.into_iter().map(|h| h.join().unwrap_or_else(|_| crate::explore::machinery("C09 worker panicked"))).collect()
        });
        let mut total = Report::new(name);
        let mut nt_all = BTreeSet::new();
        for (r, nt) in reports {
            total.merge(r);
            nt_all.extend(nt);
        }
        total.count("nontrivial", nt_all.len() as u64);
        total.sample(describe(&progs[progs.len() / 2], nf, 1, (nf - 1, true), cfgs[0], false));
        total.bound = format!("every ordered program of <= {} distinct rules over {} fields (bodies: atom / && / ||; heads: field = true|false) x every initial fact set x every atomic goal x {} configurations; cases whose forward closure is not unique are counted as undefined", max_rules, nf, cfgs.len());
        total.wall_s = t0.elapsed().as_secs_f64();
        out.push(total);
    }
    // (2) families through the GRL parser
    if crate::props::wants(opts, "horn_families_grl") {
        let t0 = Instant::now();
        let mut total = Report::new("horn_families_grl");
        let mut nt = BTreeSet::new();
        let cfgs = configs(Tier::Thorough, false);
        for (fname, prog, nf) in families() {
            total.tag(&fname);
            run_program(&prog, nf, &cfgs, true, mode, &mut total, &mut nt);
        }
        // the same families with the truth of a field written as an integer / as a string with operator characters
        // (quoted-goal configurations are boolean-only)
        let plain: Vec<Cfg> = cfgs.iter().copied().filter(|c| !c.quoted_goal).collect();
        for enc in [1u8, 2, 3] {
            set_encoding(enc);
            for (fname, prog, nf) in families() {
                if quick && !(fname.starts_with("chain2") || fname.starts_with("chain3") || fname == "diamond" || fname == "shared_subgoal" || fname == "dead_end_first" || fname == "wrong_value_first" || fname.starts_with("leaf_conjunct")) {
                    continue;
                }
                for via_grl in [true, false] {
                    run_program(&prog, nf, &plain, via_grl, mode, &mut total, &mut nt);
                }
            }
        }
        // encoding 4: only the fields no rule derives are integers (so integer conditions are only ever checked against
        // the initial facts), heads and goals stay boolean
        set_encoding(4);
        for (fname, prog, nf) in families() {
            if quick && !(fname == "diamond" || fname == "shared_subgoal" || fname == "eight_rules" || fname.starts_with("chain2") || fname == "dead_end_first" || fname.starts_with("leaf_conjunct")) {
                continue;
            }
            let derived: u32 = prog.iter().fold(0, |m, r| m | (1 << r.head));
            INT_FIELDS.store(!derived & ((1u32 << nf) - 1), std::sync::atomic::Ordering::SeqCst);
            for via_grl in [true, false] {
                run_program(&prog, nf, &plain, via_grl, mode, &mut total, &mut nt);
            }
        }
        set_encoding(0);
        total.count("nontrivial", nt.len() as u64);
        total.sample(describe(&families()[7].1, 6, 16, (3, true), cfgs[0], true));
        total.bound = format!("{} parameterised families with up to 8 rules (chains 1..5 with every wrong-valued link, diamond, shared sub-goal, dead end first, wrong value first, an already-true conjunct before / after a derived one, 2-/3-cycles), loaded through the GRL parser x every initial fact set x every goal x {} configurations; and again (GRL and builder) with the truth of a field written as the integers 5 / 0, as the strings \"on\" / \"off\", as the strings \"a >= b\" / \"no\", and with only the never-derived fields written as integers (boolean heads and goals)", families().len(), cfgs.len());
        total.wall_s = t0.elapsed().as_secs_f64();
        out.push(total);
    }
    out
}

pub fn run(opts: &Opts) -> Vec<Report> {
    run_mode(opts, Mode::Soundness)
}

pub fn replay_mode(case: &serde_json::Value, mode: Mode) -> crate::props::ReplayResult {
    let nf = case["fields"].as_u64().unwrap_or(4) as usize;
    let prog: Vec<HRule> = case["prog"]
        .as_array()
        .map(|a| {
            a.iter()
                .map(|r| {
                    let k = r[0].as_u64().unwrap_or(0);
                    let (x, y) = (r[1].as_u64().unwrap_or(0) as usize, r[2].as_u64().unwrap_or(0) as usize);
                    HRule { body: match k { 0 => Body::One(x), 1 => Body::And(x, y), _ => Body::Or(x, y) }, head: r[3].as_u64().unwrap_or(0) as usize, value: r[4].as_bool().unwrap_or(true) }
                })
                .collect()
        })
        .unwrap_or_default();
    let init = case["init"].as_u64().unwrap_or(0) as u32;
    let goal = (case["goal_idx"][0].as_u64().unwrap_or(0) as usize, case["goal_idx"][1].as_u64().unwrap_or(1) == 1);
    let cfg = Cfg { strategy: case["config"]["strategy"].as_u64().unwrap_or(0) as u8, max_depth: case["config"]["max_depth"].as_u64().unwrap_or(6) as usize, max_solutions: case["config"]["max_solutions"].as_u64().unwrap_or(1) as usize, with_rete: case["config"]["with_rete"].as_bool().unwrap_or(false), quoted_goal: case["config"]["quoted_goal"].as_bool().unwrap_or(false) };
    let via_grl = case["via_grl"].as_bool().unwrap_or(false);
    set_encoding(case["encoding"].as_u64().unwrap_or(0) as u8);
    INT_FIELDS.store(case["int_fields"].as_u64().unwrap_or(0) as u32, std::sync::atomic::Ordering::SeqCst);
    let kb = kb_of(&prog, via_grl);
    let hist = vec![format!("rules: {:?}", case["rules"]), format!("initial facts true: {:?}", case["initial_true"]), format!("query `{}` with {}", case["goal"].as_str().unwrap_or(""), cfg.name())];
    // candidate order comes from a HashSet: repeat
    for _ in 0..25 {
        let c = Case { kb: &kb, prog: &prog, grl: None, nf, init, goal, cfg };
        if let Verdict::Bad { class, detail, .. } = run_case(&c, mode) {
            return Err((hist, class.to_string(), detail));
        }
    }
    Ok(hist)
}

pub fn replay(case: &serde_json::Value) -> crate::props::ReplayResult {
    replay_mode(case, Mode::Soundness)
}
