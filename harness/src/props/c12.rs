//! C12 — windows hold exactly the events of their span; aggregates follow.
//! (A) TimeWindow::record (sliding), TimeWindow::add_event (fixed span), WindowManager (tumbling),
//!     WindowedStream::new (tumbling, batch) under every arrival order of timestamps from a dense domain.
//! (B) StreamAlphaNode sliding / tumbling under the injected clock (hook H3), clock letters included.
use crate::explore::{self, Config, Mismatch, System};
use crate::report::{hmix, hstr, Report};
use crate::util::event;
use crate::{Opts, Tier};
use rust_rule_engine::rete::stream_alpha_node::{StreamAlphaNode, WindowSpec};
use rust_rule_engine::streaming::aggregator::{AggregationResult, AggregationType, Aggregator};
use rust_rule_engine::streaming::event::StreamEvent;
use rust_rule_engine::streaming::operators::{Average, Count, Max, Min, Sum, WindowConfig, WindowedStream};
use rust_rule_engine::streaming::window::{TimeWindow, WindowManager, WindowType};
use rust_rule_engine::types::Value;
use serde_json::json;
use std::collections::{BTreeMap, BTreeSet};
use std::time::Duration;

const INF: usize = 1_000_000;

fn payload(idx: usize, ts: u64) -> Vec<(&'static str, Value)> {
    match (idx as u64 + ts) % 5 {
        0 => vec![("v", Value::Integer(ts as i64 + 1))],
        1 => vec![("v", Value::Number(ts as f64 + 0.5))],
        2 => vec![("v", Value::String("x".to_string()))],
        // a string that looks like a number is still not a numeric field
        3 => vec![("v", Value::String("40".to_string()))],
        _ => vec![],
    }
}

fn numeric(e: &StreamEvent) -> Option<f64> {
    match e.data.get("v") {
        Some(Value::Integer(i)) => Some(*i as f64),
        Some(Value::Number(n)) => Some(*n),
        _ => None,
    }
}

/// count / sum / average / min / max of a window must equal the same fold over exactly its events
fn check_aggregates(w: &TimeWindow, what: &str) -> Result<(), Mismatch> {
    let evs: Vec<&StreamEvent> = w.events().iter().collect();
    let vals: Vec<f64> = evs.iter().filter_map(|e| numeric(e)).collect();
    let sum: f64 = vals.iter().sum();
    let avg = if vals.is_empty() { None } else { Some(sum / vals.len() as f64) };
    let mn = vals.iter().cloned().fold(None, |a: Option<f64>, x| Some(a.map_or(x, |m| m.min(x))));
    let mx = vals.iter().cloned().fold(None, |a: Option<f64>, x| Some(a.map_or(x, |m| m.max(x))));
    let bad = |name: &str, got: String, exp: String| Err(Mismatch::new("aggregate_differs_from_fold", format!("{}: {} = {} but fold over its {} events gives {}", what, name, got, evs.len(), exp)));
    if w.count() != evs.len() {
        return bad("count", w.count().to_string(), evs.len().to_string());
    }
    if w.sum("v") != sum {
        return bad("sum", w.sum("v").to_string(), sum.to_string());
    }
    if w.average("v") != avg {
        return bad("average", format!("{:?}", w.average("v")), format!("{:?}", avg));
    }
    if w.min("v") != mn {
        return bad("min", format!("{:?}", w.min("v")), format!("{:?}", mn));
    }
    if w.max("v") != mx {
        return bad("max", format!("{:?}", w.max("v")), format!("{:?}", mx));
    }
    let num = |r: AggregationResult| match r {
        AggregationResult::Number(n) => Some(n),
        _ => None,
    };
    let f = "v".to_string();
    let checks: Vec<(&str, AggregationType, Option<f64>)> = vec![
        ("Aggregator Count", AggregationType::Count, Some(evs.len() as f64)),
        ("Aggregator Sum", AggregationType::Sum { field: f.clone() }, Some(sum)),
        ("Aggregator Average", AggregationType::Average { field: f.clone() }, avg),
        ("Aggregator Min", AggregationType::Min { field: f.clone() }, mn),
        ("Aggregator Max", AggregationType::Max { field: f.clone() }, mx),
    ];
    for (name, t, exp) in checks {
        let got = num(Aggregator::new(t).aggregate(w));
        if got != exp {
            return bad(name, format!("{:?}", got), format!("{:?}", exp));
        }
    }
    Ok(())
}

// ---------------------------------------------------------------------------------------------
// (A) event-time windows

pub struct WinSys {
    w: u64,
    cap: usize,
    tss: Vec<u64>,
    sliding: TimeWindow,
    fixed: TimeWindow,
    fixed_start: u64,
    mgr: WindowManager,
    offered: Vec<(String, u64)>,
    // model of the sliding window while the cap has not interfered
    slide_model: Vec<(String, u64)>,
    fixed_accepted: Vec<String>,
}

impl WinSys {
    pub fn new(w: u64, cap: usize, tss: &[u64]) -> Self {
        let d = Duration::from_millis(w);
        let fixed_start = w; // the second aligned interval [w, 2w)
        WinSys {
            w,
            cap,
            tss: tss.to_vec(),
            sliding: TimeWindow::new(WindowType::Sliding, d, 0, cap),
            fixed: TimeWindow::new(WindowType::Tumbling, d, fixed_start, cap),
            fixed_start,
            mgr: WindowManager::new(WindowType::Tumbling, d, cap, INF),
            offered: vec![],
            slide_model: vec![],
            fixed_accepted: vec![],
        }
    }
    fn mgr_view(&self) -> BTreeMap<u64, Vec<String>> {
        let mut m = BTreeMap::new();
        for w in self.mgr.active_windows() {
            m.entry(w.start_time).or_insert_with(Vec::new).extend(w.events().iter().map(|e| e.id.clone()));
        }
        m
    }
}

impl System for WinSys {
    type Op = u64;
    fn enabled(&self) -> Vec<u64> {
        self.tss.clone()
    }
    fn step(&mut self, ts: &u64) -> Result<u64, Mismatch> {
        let ts = *ts;
        let idx = self.offered.len();
        let id = format!("e{}", idx);
        let e = event(&id, "s", "E", ts, payload(idx, ts));
        self.offered.push((id.clone(), ts));
        let w = self.w;

        // --- sliding TimeWindow::record
        self.sliding.record(e.clone());
        let lo = ts.saturating_sub(w);
        let got: Vec<(String, u64)> = self.sliding.events().iter().map(|x| (x.id.clone(), x.metadata.timestamp)).collect();
        for (gid, gts) in &got {
            if *gts < lo {
                return Err(Mismatch::tagged("sliding_retains_event_outside_span", format!("after record(ts={}) with duration {} ms the window still holds {} (ts={}), older than the span [{}, {}]", ts, w, gid, gts, lo, ts), &["late_event_behind_younger"]));
            }
        }
        let mut expect: Vec<(String, u64)> = self.slide_model.iter().cloned().chain(std::iter::once((id.clone(), ts))).filter(|x| x.1 >= lo).collect();
        let gset: BTreeSet<&(String, u64)> = got.iter().collect();
        let eset: BTreeSet<&(String, u64)> = expect.iter().collect();
        if got.len() != gset.len() {
            return Err(Mismatch::new("sliding_duplicate_event", format!("an event is held twice: {:?}", got)));
        }
        if !gset.is_subset(&eset) {
            return Err(Mismatch::new("sliding_holds_unoffered_event", format!("window holds {:?}, expected a subset of {:?}", got, expect)));
        }
        // "no younger retained event has been dropped (except oldest-first by the retention cap)": the cap is a bound on
        // what is retained after the expired events are gone. While the in-span events fit, all of them are held; when
        // they do not, exactly `cap` are held and the dropped ones are the oldest (by arrival or by timestamp).
        if expect.len() <= self.cap {
            if gset != eset {
                return Err(Mismatch::new("sliding_dropped_event_inside_span", format!("after record(ts={}) duration {} ms cap {}: holds {:?}, expected {:?}", ts, w, self.cap, got, expect)));
            }
        } else {
            if got.len() > self.cap {
                return Err(Mismatch::new("retention_cap_exceeded", format!("sliding window holds {} events, cap {}", got.len(), self.cap)));
            }
            let by_arrival: BTreeSet<&(String, u64)> = expect[expect.len() - self.cap..].iter().collect();
            let mut sorted: Vec<&(String, u64)> = expect.iter().collect();
            sorted.sort_by_key(|x| std::cmp::Reverse(x.1));
            let min_kept_ts = sorted[self.cap - 1].1;
            let by_timestamp_ok = got.len() == self.cap && got.iter().all(|x| x.1 >= min_kept_ts) && expect.iter().filter(|x| x.1 > min_kept_ts).all(|x| gset.contains(x));
            if gset != by_arrival && !by_timestamp_ok {
                return Err(Mismatch::tagged("sliding_cap_dropped_other_than_oldest", format!("after record(ts={}) duration {} ms cap {}: {} events are inside the span {:?}; the window holds {:?}, expected the {} youngest (by arrival: {:?})", ts, w, self.cap, expect.len(), expect, got, self.cap, by_arrival), &["retention_cap_binds"]));
            }
            expect = got.clone();
        }
        self.slide_model = expect;
        check_aggregates(&self.sliding, "sliding window")?;

        // --- fixed-span TimeWindow::add_event
        let inside = ts >= self.fixed_start && ts < self.fixed_start + w;
        let acc = self.fixed.add_event(e.clone());
        if acc != inside {
            return Err(Mismatch::new("span_membership", format!("add_event(ts={}) on window [{}, {}) returned {}", ts, self.fixed_start, self.fixed_start + w, acc)));
        }
        if inside {
            self.fixed_accepted.push(id.clone());
        }
        let fgot: Vec<String> = self.fixed.events().iter().map(|x| x.id.clone()).collect();
        let fset: BTreeSet<&String> = fgot.iter().collect();
        let aset: BTreeSet<&String> = self.fixed_accepted.iter().collect();
        if fgot.len() != fset.len() || !fset.is_subset(&aset) || fgot.len() > self.cap || (self.fixed_accepted.len() <= self.cap && fset != aset) {
            return Err(Mismatch::new("fixed_window_contents", format!("window [{}, {}) cap {} holds {:?}, accepted so far {:?}", self.fixed_start, self.fixed_start + w, self.cap, fgot, self.fixed_accepted)));
        }
        check_aggregates(&self.fixed, "fixed window")?;

        // --- WindowManager (tumbling)
        let before = self.mgr_view();
        self.mgr.process_event(e.clone());
        let mut seen_ids: BTreeSet<String> = BTreeSet::new();
        let mut starts: BTreeSet<u64> = BTreeSet::new();
        let home = (ts / w) * w;
        let mut in_home = false;
        let mut home_count = None;
        for win in self.mgr.active_windows() {
            if win.start_time % w != 0 || win.end_time != win.start_time + w {
                return Err(Mismatch::new("tumbling_window_not_aligned", format!("window [{}, {}) is not an aligned interval of {} ms", win.start_time, win.end_time, w)));
            }
            if !starts.insert(win.start_time) {
                return Err(Mismatch::new("tumbling_duplicate_window", format!("two active windows start at {}", win.start_time)));
            }
            if win.count() > self.cap {
                return Err(Mismatch::new("retention_cap_exceeded", format!("window at {} holds {} events, cap {}", win.start_time, win.count(), self.cap)));
            }
            for x in win.events() {
                let t = x.metadata.timestamp;
                if t < win.start_time || t >= win.end_time {
                    return Err(Mismatch::new("tumbling_event_in_wrong_window", format!("event {} (ts={}) is in window [{}, {})", x.id, t, win.start_time, win.end_time)));
                }
                if !seen_ids.insert(x.id.clone()) {
                    return Err(Mismatch::new("tumbling_event_in_two_windows", format!("event {} appears more than once", x.id)));
                }
                if x.id == id {
                    if win.start_time != home {
                        return Err(Mismatch::new("tumbling_event_in_wrong_window", format!("event ts={} placed in window starting {}, aligned home is {}", ts, win.start_time, home)));
                    }
                    in_home = true;
                }
            }
            if win.start_time == home {
                home_count = Some(win.count());
            }
            check_aggregates(win, "tumbling window")?;
        }
        if !in_home && !(self.cap < INF && home_count == Some(self.cap)) {
            return Err(Mismatch::new("tumbling_event_not_placed", format!("after process_event(ts={}) the event is in no active window (home window start {}, present: {:?})", ts, home, starts)));
        }
        let after = self.mgr_view();
        for (s, ids) in &before {
            if let Some(now_ids) = after.get(s) {
                if ids.len() < self.cap && !(*s == home && ids.len() + 1 > self.cap) {
                    for i in ids {
                        if !now_ids.contains(i) {
                            return Err(Mismatch::new("tumbling_event_lost", format!("event {} vanished from the still-active window starting {}", i, s)));
                        }
                    }
                }
            }
        }

        // --- WindowedStream::new (tumbling, batch) over everything offered so far
        let all: Vec<StreamEvent> = self.offered.iter().enumerate().map(|(i, (oid, ots))| event(oid, "s", "E", *ots, payload(i, *ots))).collect();
        let mk = || WindowedStream::new(all.clone(), WindowConfig::tumbling(Duration::from_millis(w)).with_max_events(self.cap));
        let ws = mk();
        let mut placed: BTreeMap<String, u64> = BTreeMap::new();
        let mut bstarts = BTreeSet::new();
        let mut order = vec![];
        for win in ws.windows() {
            order.push(win.start_time);
            if win.start_time % w != 0 || win.end_time != win.start_time + w || !bstarts.insert(win.start_time) {
                return Err(Mismatch::new("tumbling_window_not_aligned", format!("batch window [{}, {}) misaligned or duplicated (duration {})", win.start_time, win.end_time, w)));
            }
            if win.count() > self.cap {
                return Err(Mismatch::new("retention_cap_exceeded", format!("batch window at {} holds {} events, cap {}", win.start_time, win.count(), self.cap)));
            }
            for x in win.events() {
                if placed.insert(x.id.clone(), win.start_time).is_some() {
                    return Err(Mismatch::new("tumbling_event_in_two_windows", format!("batch: event {} is in two windows", x.id)));
                }
            }
            check_aggregates(win, "batch tumbling window")?;
        }
        let mut per_home: BTreeMap<u64, usize> = BTreeMap::new();
        for (_, ots) in &self.offered {
            *per_home.entry((ots / w) * w).or_insert(0) += 1;
        }
        for (oid, ots) in &self.offered {
            let h = (ots / w) * w;
            match placed.get(oid) {
                Some(s) if *s == h => {}
                Some(s) => return Err(Mismatch::new("tumbling_event_in_wrong_window", format!("batch: event ts={} in window starting {}, home {}", ots, s, h))),
                None => {
                    if per_home[&h] <= self.cap {
                        return Err(Mismatch::new("tumbling_event_not_placed", format!("batch: event {} ts={} is in no window", oid, ots)));
                    }
                }
            }
        }
        // operator-level aggregations per window, same order as windows()
        let folds: Vec<(Box<dyn Fn() -> Vec<Option<f64>>>, &str)> = vec![
            (Box::new(|| mk().aggregate(Count).into_iter().map(|r| r.as_number()).collect()), "Count"),
            (Box::new(|| mk().aggregate(Sum::new("v")).into_iter().map(|r| r.as_number()).collect()), "Sum"),
            (Box::new(|| mk().aggregate(Average::new("v")).into_iter().map(|r| r.as_number()).collect()), "Average"),
            (Box::new(|| mk().aggregate(Min::new("v")).into_iter().map(|r| r.as_number()).collect()), "Min"),
            (Box::new(|| mk().aggregate(Max::new("v")).into_iter().map(|r| r.as_number()).collect()), "Max"),
        ];
        // windows() order is unspecified (hash map); compare as multisets against the per-window folds
        let mut exp: BTreeMap<&str, Vec<String>> = BTreeMap::new();
        for win in ws.windows() {
            let vals: Vec<f64> = win.events().iter().filter_map(numeric).collect();
            let sum: f64 = vals.iter().sum();
            exp.entry("Count").or_default().push(format!("{:?}", Some(win.count() as f64)));
            exp.entry("Sum").or_default().push(format!("{:?}", Some(sum)));
            exp.entry("Average").or_default().push(format!("{:?}", if vals.is_empty() { None } else { Some(sum / vals.len() as f64) }));
            exp.entry("Min").or_default().push(format!("{:?}", vals.iter().cloned().fold(None, |a: Option<f64>, x| Some(a.map_or(x, |m| m.min(x))))));
            exp.entry("Max").or_default().push(format!("{:?}", vals.iter().cloned().fold(None, |a: Option<f64>, x| Some(a.map_or(x, |m| m.max(x))))));
        }
        // (every construction from the same events applies the cap identically, so this holds with a binding cap too)
        {
            for (f, name) in folds {
                let mut got: Vec<String> = f().into_iter().map(|x| format!("{:?}", x)).collect();
                let mut e = exp.get(name).cloned().unwrap_or_default();
                got.sort();
                e.sort();
                if got != e {
                    return Err(Mismatch::new("aggregate_differs_from_fold", format!("WindowedStream.aggregate({}) = {:?}, per-window folds {:?}", name, got, e)));
                }
            }
        }
        let _ = order;
        let mut h = hstr(&format!("{:?}|{:?}|{:?}", got, fgot, after));
        h = hmix(h, placed.len() as u64);
        Ok(h)
    }
    fn kind(op: &u64) -> String {
        format!("ts{}", op)
    }
    fn model_state(&self) -> u64 {
        hstr(&format!("{:?}|{:?}", self.offered, self.slide_model))
    }
}

// ---------------------------------------------------------------------------------------------
// (B) StreamAlphaNode under the injected clock

const BASE: u64 = 1_000_000;

#[derive(Clone)]
pub struct AlphaSys {
    sliding: bool,
    w: u64,
    cap: usize,
    tss: Vec<u64>,
    node: StreamAlphaNode,
    clock: u64,
    n: usize,
    model: Vec<(String, u64)>,
}

impl AlphaSys {
    pub fn new(sliding: bool, w: u64, cap: usize, tss: &[u64]) -> Self {
        let spec = WindowSpec { duration: Duration::from_millis(w), window_type: if sliding { WindowType::Sliding } else { WindowType::Tumbling } };
        AlphaSys { sliding, w, cap, tss: tss.to_vec(), node: StreamAlphaNode::new("s", None, Some(spec)).with_max_events(cap), clock: BASE + 2, n: 0, model: vec![] }
    }
    fn in_span(&self, ts: u64) -> bool {
        if self.sliding {
            ts >= self.clock.saturating_sub(self.w) && ts <= self.clock
        } else {
            let s = (self.clock / self.w) * self.w;
            ts >= s && ts < s + self.w
        }
    }
}

impl System for AlphaSys {
    type Op = (u64, u64); // (clock advance, timestamp offset)
    fn enabled(&self) -> Vec<(u64, u64)> {
        let mut v = vec![];
        for adv in [1u64, 0, 3] {
            for t in &self.tss {
                v.push((adv, *t));
            }
        }
        v
    }
    fn cost(op: &(u64, u64)) -> u32 {
        (op.0 == 0) as u32
    }
    fn step(&mut self, op: &(u64, u64)) -> Result<u64, Mismatch> {
        self.clock += op.0;
        let ts = BASE + op.1;
        rust_rule_engine::verif_hooks::set_clock_ms(Some(self.clock));
        let id = format!("e{}", self.n);
        self.n += 1;
        let e = event(&id, "s", "E", ts, payload(self.n, op.1));
        let inside = self.in_span(ts);
        let acc = self.node.process_event(&e);
        rust_rule_engine::verif_hooks::set_clock_ms(None);
        let kind = if self.sliding { "sliding" } else { "tumbling" };
        if acc != inside {
            return Err(Mismatch::new("alpha_span_membership", format!("{} alpha node, duration {} ms, clock {}: event ts={} accepted={} but inside span={}", kind, self.w, self.clock - BASE, op.1, acc, inside)));
        }
        let got: Vec<(String, u64)> = self.node.get_events().iter().map(|x| (x.id.clone(), x.metadata.timestamp)).collect();
        let gset: BTreeSet<&(String, u64)> = got.iter().collect();
        if gset.len() != got.len() {
            return Err(Mismatch::new("alpha_duplicate_event", format!("{:?}", got)));
        }
        if !acc {
            if got.iter().any(|x| x.0 == id) {
                return Err(Mismatch::new("alpha_rejected_event_buffered", format!("rejected event {} is in the buffer", id)));
            }
            // a rejected event does not trigger eviction; nothing else is claimed
            let mset: BTreeSet<&(String, u64)> = self.model.iter().collect();
            if !gset.is_subset(&mset) {
                return Err(Mismatch::new("alpha_holds_unoffered_event", format!("{:?} vs {:?}", got, self.model)));
            }
            self.model = got;
            return Ok(hmix(1, self.model.len() as u64));
        }
        for (gid, gts) in &got {
            if !self.in_span(*gts) {
                return Err(Mismatch::tagged("alpha_retains_event_outside_span", format!("{} alpha node, duration {} ms, clock {}: after accepting ts={} the buffer still holds {} (ts={})", kind, self.w, self.clock - BASE, op.1, gid, gts - BASE), &["late_event_behind_younger"]));
            }
        }
        let expect: Vec<(String, u64)> = self.model.iter().cloned().chain(std::iter::once((id.clone(), ts))).filter(|x| self.in_span(x.1)).collect();
        let eset: BTreeSet<&(String, u64)> = expect.iter().collect();
        if !gset.is_subset(&eset) {
            return Err(Mismatch::new("alpha_holds_unoffered_event", format!("{:?} vs {:?}", got, expect)));
        }
        // the cap may bind as soon as the buffer momentarily exceeds it (before or after eviction)
        if self.model.len() + 1 <= self.cap {
            if gset != eset {
                let tags: Vec<&str> = if !self.sliding && !got.iter().any(|x| x.0 == id) { vec!["tumbling_first_event_of_new_window"] } else { vec![] };
                return Err(Mismatch::tagged("alpha_dropped_event_inside_span", format!("{} alpha node, duration {} ms, clock {}: after accepting ts={} buffer {:?}, expected {:?}", kind, self.w, self.clock - BASE, op.1, got.iter().map(|x| (&x.0, x.1 - BASE)).collect::<Vec<_>>(), expect.iter().map(|x| (&x.0, x.1 - BASE)).collect::<Vec<_>>()), &tags));
            }
        } else if got.len() > self.cap {
            return Err(Mismatch::new("retention_cap_exceeded", format!("alpha node holds {} events, cap {}", got.len(), self.cap)));
        }
        self.model = got;
        Ok(hmix(2, self.model.len() as u64))
    }
    fn kind(op: &(u64, u64)) -> String {
        match op.0 {
            0 => "event_clock_stays",
            1 => "event_clock_plus1",
            _ => "event_clock_plus3",
        }
        .to_string()
    }
    fn model_state(&self) -> u64 {
        hstr(&format!("{}|{:?}", self.clock, self.model))
    }
    fn try_clone(&self) -> Option<Self> {
        Some(self.clone())
    }
}

pub fn run(opts: &Opts) -> Vec<Report> {
    let full: Vec<u64> = vec![0, 1, 2, 3, 5, 9];
    let small: Vec<u64> = vec![0, 1, 3, 5];
    let tiny: Vec<u64> = vec![0, 2, 5];
    let plan: Vec<(&str, Vec<u64>, usize)> = match opts.tier {
        Tier::Quick => vec![("win_len5", full.clone(), 5), ("win_len7_small", small.clone(), 7), ("win_len9_tiny", tiny.clone(), 9)],
        Tier::Thorough => vec![("win_len7", full.clone(), 7), ("win_len9_small", small.clone(), 9), ("win_len12_tiny", tiny.clone(), 12)],
    };
    let mut out = vec![];
    for (name, tss, depth) in plan {
        if !crate::props::wants(opts, name) {
            continue;
        }
        let mut total = Report::new(name);
        for w in [1u64, 2, 3, 5] {
            for cap in [1usize, 2, 3, INF] {
                if depth >= 12 && cap != INF && cap != 2 {
                    continue;
                }
                let mut cfg = Config::new(name, depth);
                cfg.ctx = json!({"duration_ms": w, "cap": cap, "tss": tss});
                let t = tss.clone();
                total.merge(explore::explore(&move || WinSys::new(w, cap, &t), &cfg));
            }
        }
        total.bound = format!("all timestamp sequences (every arrival order) of length <= {} over {:?} ms; durations 1,2,3,5 ms; caps 1,2,3,unbounded; TimeWindow.record/add_event, WindowManager, WindowedStream (tumbling)", depth, tss);
        out.push(total);
    }
    // durations above one second that are not whole seconds (a span computed through floating-point seconds is one
    // millisecond short for 1001, 1003, 1235 ...), with events exactly one span apart
    let (cname, cdepth) = if opts.tier == Tier::Quick { ("win_coarse_len5", 5) } else { ("win_coarse_len6", 6) };
    if crate::props::wants(opts, cname) {
        let mut total = Report::new(cname);
        for w in [1001u64, 1003, 1235, 1500, 4097, 60_001] {
            let tss: Vec<u64> = vec![0, 1, w - 1, w, w + 1, 2 * w];
            for cap in [2usize, INF] {
                let mut cfg = Config::new(cname, cdepth);
                cfg.ctx = json!({"duration_ms": w, "cap": cap, "tss": tss});
                let t = tss.clone();
                total.merge(explore::explore(&move || WinSys::new(w, cap, &t), &cfg));
            }
        }
        total.bound = format!("all timestamp sequences of length <= {} over {{0, 1, w-1, w, w+1, 2w}} for durations w = 1001, 1003, 1235, 1500, 4097, 60001 ms; caps 2, unbounded; same subjects and oracle as win_*", cdepth);
        out.push(total);
    }
    let aplan: Vec<(&str, Vec<u64>, usize, u32)> = match opts.tier {
        Tier::Quick => vec![("alpha_len4", full.clone(), 4, 2), ("alpha_len6_small", small.clone(), 6, 1)],
        Tier::Thorough => vec![("alpha_len5", full.clone(), 5, 2), ("alpha_len7_small", small.clone(), 7, 2), ("alpha_len9_tiny", tiny.clone(), 9, 1)],
    };
    for (name, tss, depth, max_cost) in aplan {
        if !crate::props::wants(opts, name) {
            continue;
        }
        let mut total = Report::new(name);
        for sliding in [true, false] {
            for w in [1u64, 2, 3, 5] {
                for cap in [2usize, INF] {
                    let mut cfg = Config::new(name, depth);
                    cfg.max_cost = max_cost;
                    cfg.ctx = json!({"sliding": sliding, "duration_ms": w, "cap": cap, "tss": tss});
                    let t = tss.clone();
                    total.merge(explore::explore(&move || AlphaSys::new(sliding, w, cap, &t), &cfg));
                }
            }
        }
        total.bound = format!("StreamAlphaNode sliding+tumbling under the injected clock: all (clock advance in +1/+0/+3, timestamp in {:?}) sequences of length <= {} with <= {} standing-clock steps; durations 1,2,3,5 ms; caps 2, unbounded", tss, depth, max_cost);
        out.push(total);
    }
    out
}

pub fn replay(case: &serde_json::Value) -> crate::props::ReplayResult {
    let ctx = &case["ctx"];
    let w = ctx["duration_ms"].as_u64().unwrap_or(1);
    let cap = ctx["cap"].as_u64().unwrap_or(INF as u64) as usize;
    let tss: Vec<u64> = ctx["tss"].as_array().map(|a| a.iter().filter_map(|x| x.as_u64()).collect()).unwrap_or_default();
    let ch = crate::props::choices_of(case);
    if let Some(sliding) = ctx["sliding"].as_bool() {
        crate::props::conv(explore::replay(&move || AlphaSys::new(sliding, w, cap, &tss), &ch))
    } else {
        crate::props::conv(explore::replay(&move || WinSys::new(w, cap, &tss), &ch))
    }
}
