//! C07 — RETE agenda order, no-loop, group exclusivity (a) and termination of every fire_all (b).
use crate::explore::{self, Config, Mismatch, System};
use crate::isolate::{self, Outcome};
use crate::report::{hmix, hstr, Report, Violation};
use crate::{Opts, Tier};
use rust_rule_engine::rete::agenda::{Activation, AdvancedAgenda};
use rust_rule_engine::rete::facts::{FactValue, TypedFacts};
use rust_rule_engine::rete::network::{ReteUlEngine, ReteUlNode, TypedReteUlEngine, TypedReteUlRule};
use rust_rule_engine::rete::propagation::IncrementalEngine;
use rust_rule_engine::rete::{ActionResults, AlphaNode};
use serde_json::json;
use std::collections::{BTreeMap, BTreeSet};
use std::sync::Arc;
use std::time::{Duration, Instant};

// ------------------------------------------------------------------------------------------------
// (a) AdvancedAgenda histories

#[derive(Clone, Debug)]
pub struct Tmpl {
    rule: &'static str,
    salience: i32,
    group: &'static str,
    no_loop: bool,
    act_group: Option<&'static str>,
    lock: bool,
}

fn templates(n: usize) -> Vec<Tmpl> {
    let t = |rule, salience, group, no_loop, act_group, lock| Tmpl { rule, salience, group, no_loop, act_group, lock };
    let all = vec![
        t("R0", 0, "MAIN", true, None, false),
        t("R1", 5, "MAIN", true, None, false),
        t("R2", 5, "MAIN", false, None, false),
        t("R3", 0, "G", true, None, false),
        t("R5", 0, "MAIN", false, Some("X"), false),
        t("R6", 5, "MAIN", false, Some("X"), false),
        t("R4", 5, "G", false, None, false),
        t("R7", 0, "MAIN", false, None, true),
    ];
    if n >= 100 {
        // attribute combinations: agenda group x activation group x lock-on-active (x no-loop in MAIN)
        return vec![
            t("C0", 0, "MAIN", false, None, false),
            t("C1", 5, "MAIN", false, Some("X"), false),
            t("C2", 0, "MAIN", false, None, true),
            t("C3", 5, "MAIN", false, Some("X"), true),
            t("C4", 5, "G", false, None, false),
            t("C5", 0, "G", false, Some("X"), false),
            t("C6", 5, "G", false, None, true),
            t("C7", 0, "G", false, Some("X"), true),
            t("C8", 0, "MAIN", true, Some("X"), false),
            t("C9", 5, "MAIN", true, None, true),
            t("C10", 0, "MAIN", true, Some("X"), true),
            t("C11", 5, "G", true, Some("Y"), true),
        ]
        .into_iter()
        .take(n - 100)
        .collect();
    }
    all.into_iter().take(n).collect()
}

#[derive(Clone, Debug)]
pub enum Op {
    Add(usize),
    Next,
    MarkFired,
    Focus(&'static str),
    Reset,
    Clear,
}

#[derive(Clone, Debug)]
struct MAct {
    seq: u64,
    t: Tmpl,
}

pub struct Sys {
    a: AdvancedAgenda,
    base: Instant,
    tmpls: Vec<Tmpl>,
    seq: u64,
    last_popped: Option<(Activation, MAct)>,
    // exact reference agenda
    groups: BTreeMap<String, Vec<MAct>>,
    focus: String,
    stack: Vec<String>,
    fired_rules: BTreeSet<String>,
    fired_ag: BTreeSet<String>,
    locked: BTreeSet<String>,
    returned: BTreeSet<u64>,
    added: BTreeSet<u64>,
    diverged: bool,
}

impl Sys {
    pub fn new(ntmpl: usize) -> Self {
        let mut groups = BTreeMap::new();
        groups.insert("MAIN".to_string(), vec![]);
        Sys {
            a: AdvancedAgenda::new(),
            base: Instant::now(),
            tmpls: templates(ntmpl),
            seq: 0,
            last_popped: None,
            groups,
            focus: "MAIN".into(),
            stack: vec![],
            fired_rules: BTreeSet::new(),
            fired_ag: BTreeSet::new(),
            locked: BTreeSet::new(),
            returned: BTreeSet::new(),
            added: BTreeSet::new(),
            diverged: false,
        }
    }
    fn skippable_by_statement(&self, m: &MAct) -> bool {
        (m.t.no_loop && self.fired_rules.contains(m.t.rule)) || m.t.act_group.map(|g| self.fired_ag.contains(g)).unwrap_or(false)
    }
    fn skippable_exact(&self, m: &MAct) -> bool {
        self.skippable_by_statement(m) || (m.t.lock && self.locked.contains(m.t.group))
    }
    fn model_next(&mut self) -> Option<MAct> {
        loop {
            if let Some(v) = self.groups.get_mut(&self.focus) {
                v.sort_by(|x, y| y.t.salience.cmp(&x.t.salience).then(x.seq.cmp(&y.seq)));
            }
            loop {
                let cand = match self.groups.get_mut(&self.focus) {
                    Some(v) if !v.is_empty() => v.remove(0),
                    _ => break,
                };
                if self.skippable_exact(&cand) {
                    continue; // discarded
                }
                return Some(cand);
            }
            match self.stack.pop() {
                Some(f) => self.focus = f,
                None => return None,
            }
        }
    }
}

impl System for Sys {
    type Op = Op;
    fn enabled(&self) -> Vec<Op> {
        if self.diverged {
            return vec![];
        }
        let mut v: Vec<Op> = (0..self.tmpls.len()).map(Op::Add).collect();
        v.push(Op::Next);
        if self.last_popped.is_some() {
            v.push(Op::MarkFired);
        }
        v.push(Op::Focus("G"));
        v.push(Op::Focus("MAIN"));
        v.push(Op::Reset);
        v.push(Op::Clear);
        v
    }
    fn step(&mut self, op: &Op) -> Result<u64, Mismatch> {
        let mut obs = 0u64;
        match op {
            Op::Add(i) => {
                let t = self.tmpls[*i].clone();
                self.seq += 1;
                let mut act = Activation::new(t.rule.to_string(), t.salience).with_no_loop(t.no_loop).with_agenda_group(t.group.to_string()).with_lock_on_active(t.lock);
                // some templates describe rules with more conditions: under the default (salience) strategy that must not
                // change the order
                if matches!(t.rule, "R2" | "R4" | "C1" | "C4" | "C9") {
                    act = act.with_condition_count(3);
                }
                if let Some(g) = t.act_group {
                    act = act.with_activation_group(g.to_string());
                }
                act.created_at = self.base + Duration::from_micros(self.seq);
                self.a.add_activation(act);
                self.added.insert(self.seq);
                let dropped = t.act_group.map(|g| self.fired_ag.contains(g)).unwrap_or(false);
                if !dropped {
                    self.groups.entry(t.group.to_string()).or_default().push(MAct { seq: self.seq, t });
                }
            }
            Op::Next => {
                // candidates by the statement: pending, never passed over, not skippable, in the group in focus
                let focus_before = self.focus.clone();
                let pending_in_focus: Vec<MAct> = self.groups.get(&focus_before).cloned().unwrap_or_default().into_iter().filter(|m| !self.skippable_exact(m)).collect();
                let got = self.a.get_next_activation();
                let exp = self.model_next();
                let focus_after = self.a.get_focus().to_string();
                match &got {
                    Some(g) => {
                        let seq = g.created_at.duration_since(self.base).as_micros() as u64;
                        if !self.added.contains(&seq) {
                            return Err(Mismatch::new("unknown_activation_returned", format!("returned an activation that was never added: {} @{}", g.rule_name, seq)));
                        }
                        if !self.returned.insert(seq) {
                            return Err(Mismatch::new("activation_returned_twice", format!("activation {} (#{}) returned a second time", g.rule_name, seq)));
                        }
                        if g.agenda_group != focus_after {
                            return Err(Mismatch::new("activation_outside_focus", format!("returned {} of group {} while the focus is {}", g.rule_name, g.agenda_group, focus_after)));
                        }
                        let as_model = MAct { seq, t: self.tmpls.iter().find(|t| t.rule == g.rule_name).cloned().unwrap() };
                        if self.skippable_by_statement(&as_model) {
                            return Err(Mismatch::new(
                                if as_model.t.no_loop && self.fired_rules.contains(as_model.t.rule) { "no_loop_rule_fired_again" } else { "second_rule_of_activation_group" },
                                format!("returned {} (#{}) although it must be skipped: fired rules {:?}, fired activation groups {:?}", g.rule_name, seq, self.fired_rules, self.fired_ag),
                            ));
                        }
                        // order: nothing pending in that group with higher salience, or equal salience and earlier creation
                        let same_group: Vec<&MAct> = if g.agenda_group == focus_before { pending_in_focus.iter().collect() } else { vec![] };
                        for m in same_group {
                            if m.seq != seq && (m.t.salience > g.salience || (m.t.salience == g.salience && m.seq < seq)) {
                                return Err(Mismatch::new("agenda_order", format!("returned {} (salience {}, #{}) while {} (salience {}, #{}) is pending in the same group", g.rule_name, g.salience, seq, m.t.rule, m.t.salience, m.seq)));
                            }
                        }
                    }
                    None => {
                        if let Some(m) = pending_in_focus.first() {
                            return Err(Mismatch::new("pending_activation_not_returned", format!("get_next_activation() = None while {} (#{}) is pending and fireable in the focused group {}", m.t.rule, m.seq, focus_before)));
                        }
                    }
                }
                // exact model agreement (behaviour the statement leaves open is mirrored, not demanded)
                let got_seq = got.as_ref().map(|g| g.created_at.duration_since(self.base).as_micros() as u64);
                let exp_seq = exp.as_ref().map(|m| m.seq);
                if got_seq != exp_seq || focus_after != self.focus {
                    self.diverged = true; // allowed divergence: this history is not extended
                    obs = 0xD17E;
                } else {
                    obs = hmix(got_seq.unwrap_or(0), 1);
                }
                self.last_popped = match (got, exp) {
                    (Some(g), Some(m)) => Some((g, m)),
                    _ => None,
                };
            }
            Op::MarkFired => {
                let (g, m) = self.last_popped.take().unwrap();
                self.a.mark_rule_fired(&g);
                if !self.a.has_fired(m.t.rule) {
                    return Err(Mismatch::new("fired_mark_lost", format!("has_fired({}) is false right after mark_rule_fired", m.t.rule)));
                }
                self.fired_rules.insert(m.t.rule.to_string());
                if let Some(ag) = m.t.act_group {
                    self.fired_ag.insert(ag.to_string());
                }
                if m.t.lock {
                    self.locked.insert(m.t.group.to_string());
                }
            }
            Op::Focus(g) => {
                self.a.set_focus(g.to_string());
                if *g != self.focus {
                    self.stack.push(self.focus.clone());
                    self.focus = g.to_string();
                }
                if self.a.get_focus() != self.focus {
                    return Err(Mismatch::new("focus_differs", format!("after set_focus({}) the focus is {}", g, self.a.get_focus())));
                }
            }
            Op::Reset => {
                self.a.reset_fired_flags();
                self.fired_rules.clear();
                self.fired_ag.clear();
                self.locked.clear();
            }
            Op::Clear => {
                self.a.clear();
                self.groups.clear();
                self.groups.insert("MAIN".into(), vec![]);
                self.focus = "MAIN".into();
                self.stack.clear();
                self.fired_rules.clear();
                self.fired_ag.clear();
                self.locked.clear();
                self.last_popped = None;
            }
        }
        Ok(obs)
    }
    fn kind(op: &Op) -> String {
        match op {
            Op::Add(_) => "add_activation",
            Op::Next => "get_next_activation",
            Op::MarkFired => "mark_rule_fired",
            Op::Focus(_) => "set_focus",
            Op::Reset => "reset_fired_flags",
            Op::Clear => "clear",
        }
        .to_string()
    }
    fn model_state(&self) -> u64 {
        let g: Vec<(String, Vec<(u64, &str)>)> = self.groups.iter().map(|(k, v)| (k.clone(), v.iter().map(|m| (m.seq, m.t.rule)).collect())).collect();
        hstr(&format!("{:?}|{}|{:?}|{:?}|{:?}|{:?}", g, self.focus, self.stack, self.fired_rules, self.fired_ag, self.locked))
    }
}

// ------------------------------------------------------------------------------------------------
// (b) termination of the fire_all entry points

#[derive(Clone, Copy, Debug, PartialEq)]
enum Kind {
    AlwaysTrue,
    SelfInc,
    FlipA,
    FlipB,
    /// always true; the action asks for another agenda group to get the focus (engines whose actions can return
    /// results; an always-true rule elsewhere)
    Refocus,
}

const VARIANTS: [(Kind, bool); 10] = [(Kind::AlwaysTrue, false), (Kind::AlwaysTrue, true), (Kind::SelfInc, false), (Kind::SelfInc, true), (Kind::FlipA, false), (Kind::FlipB, false), (Kind::FlipA, true), (Kind::FlipB, true), (Kind::Refocus, false), (Kind::Refocus, true)];
const PRIO: [[i32; 3]; 3] = [[0, 0, 0], [5, 0, i32::MIN], [i32::MAX, i32::MIN, 0]];

/// all multisets of 1..=3 variants x priority patterns
fn rule_sets() -> Vec<(Vec<usize>, usize)> {
    let mut v = vec![];
    let n = VARIANTS.len();
    for a in 0..n {
        for p in 0..PRIO.len() {
            v.push((vec![a], p));
        }
        for b in a..n {
            for p in 0..PRIO.len() {
                v.push((vec![a, b], p));
            }
            for c in b..n {
                for p in 0..PRIO.len() {
                    v.push((vec![a, b, c], p));
                }
            }
        }
    }
    v
}

const ENGINES: [&str; 4] = ["IncrementalEngine", "TypedReteUlEngine", "ReteUlEngine", "fire_rete_ul_rules_with_agenda"];

fn alpha(field: &str, op: &str, value: &str) -> ReteUlNode {
    ReteUlNode::UlAlpha(AlphaNode { field: field.to_string(), operator: op.to_string(), value: value.to_string() })
}

fn node_for(k: Kind, field: &str) -> ReteUlNode {
    match k {
        Kind::AlwaysTrue | Kind::SelfInc | Kind::Refocus => alpha(field, ">=", "0"),
        Kind::FlipA => alpha(field, "==", "0"),
        Kind::FlipB => alpha(field, "==", "1"),
    }
}

fn typed_action(k: Kind, field: &'static str) -> Arc<dyn Fn(&mut TypedFacts, &mut ActionResults) + Send + Sync> {
    Arc::new(move |f: &mut TypedFacts, r: &mut ActionResults| {
        let cur = f.get(field).and_then(|v| v.as_integer()).unwrap_or(0);
        match k {
            Kind::AlwaysTrue => {}
            Kind::Refocus => r.add(rust_rule_engine::rete::action_result::ActionResult::ActivateAgendaGroup("G".to_string())),
            Kind::SelfInc => f.set(field, FactValue::Integer(cur.wrapping_add(1))),
            Kind::FlipA => f.set(field, FactValue::Integer(1)),
            Kind::FlipB => f.set(field, FactValue::Integer(0)),
        }
    })
}

/// returns (firings, bound)
fn run_termination_case(engine: usize, set: &(Vec<usize>, usize)) -> (usize, usize) {
    let (vars, p) = set;
    let n = vars.len();
    match engine {
        0 => {
            let mut e = IncrementalEngine::new();
            for (i, &vi) in vars.iter().enumerate() {
                let (k, nl) = VARIANTS[vi];
                e.add_rule(TypedReteUlRule { name: format!("r{}", i), node: node_for(k, "T.v"), priority: PRIO[*p][i], no_loop: nl, action: typed_action(k, "T.v") }, vec!["T".to_string()]);
            }
            let mut d = TypedFacts::new();
            d.set("v", 0i64);
            e.insert("T".to_string(), d);
            (e.fire_all().len(), 1000)
        }
        1 => {
            let mut e = TypedReteUlEngine::new();
            for (i, &vi) in vars.iter().enumerate() {
                let (k, nl) = VARIANTS[vi];
                let act = typed_action(k, "v");
                e.add_rule_with_action(format!("r{}", i), node_for(k, "v"), PRIO[*p][i], nl, move |f, r| act(f, r));
            }
            e.set_fact("v", 0i64);
            (e.fire_all().len(), 1000 * n)
        }
        _ => {
            let mk_action = |k: Kind| {
                move |f: &mut std::collections::HashMap<String, String>| {
                    let cur: i64 = f.get("v").and_then(|s| s.parse().ok()).unwrap_or(0);
                    match k {
                        Kind::AlwaysTrue | Kind::Refocus => {}
                        Kind::SelfInc => {
                            f.insert("v".into(), cur.wrapping_add(1).to_string());
                        }
                        Kind::FlipA => {
                            f.insert("v".into(), "1".into());
                        }
                        Kind::FlipB => {
                            f.insert("v".into(), "0".into());
                        }
                    }
                }
            };
            if engine == 2 {
                let mut e = ReteUlEngine::new();
                for (i, &vi) in vars.iter().enumerate() {
                    let (k, nl) = VARIANTS[vi];
                    e.add_rule_with_action(format!("r{}", i), node_for(k, "v"), PRIO[*p][i], nl, mk_action(k));
                }
                e.set_fact("v".into(), "0".into());
                (e.fire_all().len(), 100 * n)
            } else {
                let mut rules: Vec<rust_rule_engine::rete::network::ReteUlRule> = vars
                    .iter()
                    .enumerate()
                    .map(|(i, &vi)| {
                        let (k, nl) = VARIANTS[vi];
                        rust_rule_engine::rete::network::ReteUlRule { name: format!("r{}", i), node: node_for(k, "v"), priority: PRIO[*p][i], no_loop: nl, action: Arc::new(mk_action(k)) }
                    })
                    .collect();
                let mut facts = std::collections::HashMap::new();
                facts.insert("v".to_string(), "0".to_string());
                (rust_rule_engine::rete::network::fire_rete_ul_rules_with_agenda(&mut rules, &mut facts).len(), 100 * n)
            }
        }
    }
}

pub fn child(spec: &str) {
    let cs = isolate::parse_spec(spec);
    let sets = rule_sets();
    let ns = sets.len();
    isolate::child_loop(&cs, 16, |k| {
        let engine = k / ns;
        let set = &sets[k % ns];
        let r = std::panic::catch_unwind(|| run_termination_case(engine, set));
        match r {
            Ok((fired, bound)) => (json!({"fired": fired, "bound": bound}), false),
            Err(_) => (json!({"panic": explore::take_panic()}), true),
        }
    });
}

fn describe(k: usize) -> serde_json::Value {
    let sets = rule_sets();
    let ns = sets.len();
    let (vars, p) = &sets[k % ns];
    let rules: Vec<String> = vars.iter().enumerate().map(|(i, &vi)| format!("{:?}{} prio {}", VARIANTS[vi].0, if VARIANTS[vi].1 { " no-loop" } else { "" }, PRIO[*p][i])).collect();
    json!({"sub": "termination", "case": k, "engine": ENGINES[k / ns], "rules": rules})
}

/// engine-level firing order for larger rule sets: n no-loop rules that all match, priorities with ties, added in
/// the listed order: fire_all fires them in descending priority, in the order they were added among equals
fn order_case(engine: usize, n: usize, pat: usize) -> (Vec<String>, Vec<String>) {
    let prio = |i: usize| -> i32 {
        match pat {
            0 => 0,
            1 => (i % 2) as i32,
            2 => if i + 1 == n { 10 } else { 0 },
            3 => (i % 3) as i32 - 1,
            4 => if i < n / 2 { 0 } else { 5 },
            _ => ((i * 7 + 3) % 5) as i32 - 2,
        }
    };
    let mut want: Vec<(i32, usize)> = (0..n).map(|i| (prio(i), i)).collect();
    want.sort_by(|a, b| b.0.cmp(&a.0).then(a.1.cmp(&b.1)));
    let want: Vec<String> = want.iter().map(|(_, i)| format!("r{:03}", i)).collect();
    let got = if engine == 0 {
        let mut e = IncrementalEngine::new();
        for i in 0..n {
            e.add_rule(TypedReteUlRule { name: format!("r{:03}", i), node: node_for(Kind::AlwaysTrue, "T.v"), priority: prio(i), no_loop: true, action: typed_action(Kind::AlwaysTrue, "T.v") }, vec!["T".to_string()]);
        }
        let mut d = TypedFacts::new();
        d.set("v", 0i64);
        e.insert("T".to_string(), d);
        e.fire_all()
    } else if engine == 1 {
        let mut e = TypedReteUlEngine::new();
        for i in 0..n {
            let act = typed_action(Kind::AlwaysTrue, "v");
            e.add_rule_with_action(format!("r{:03}", i), node_for(Kind::AlwaysTrue, "v"), prio(i), true, move |f, r| act(f, r));
        }
        e.set_fact("v", 0i64);
        e.fire_all()
    } else {
        let mut e = ReteUlEngine::new();
        for i in 0..n {
            e.add_rule_with_action(format!("r{:03}", i), node_for(Kind::AlwaysTrue, "v"), prio(i), true, |_f: &mut std::collections::HashMap<String, String>| {});
        }
        e.set_fact("v".into(), "0".into());
        e.fire_all()
    };
    (got, want)
}

fn run_order(opts: &Opts) -> Report {
    let t0 = Instant::now();
    let mut rep = Report::new("engine_firing_order");
    let nmax = if opts.tier == Tier::Quick { 48 } else { 128 };
    let mut distinct = 0u64;
    for engine in 0..3usize {
        for n in 1..=nmax {
            for pat in 0..6usize {
                rep.count("evaluations", 1);
                rep.letter(ENGINES[engine]);
                let case = json!({"sub": "engine_firing_order", "engine": ENGINES[engine], "engine_idx": engine, "n_rules": n, "priority_pattern": pat});
                match std::panic::catch_unwind(|| order_case(engine, n, pat)) {
                    Err(_) => rep.violation(Violation { class: "fire_all_panicked".into(), detail: crate::explore::take_panic(), tags: vec![], case }),
                    Ok((got, want)) => {
                        // IncrementalEngine creates its activations in propagation order (a hash map decides which rule
                        // comes first), so among equal priorities only "every rule once, priorities never increasing"
                        // is claimed there; the typed engine's agenda is the rule list itself
                        let (got, want) = if engine == 0 {
                            let mut g2 = got.clone();
                            let mut w2 = want.clone();
                            // negated priority of a rule, recomputed from its name
                            let class_of = |name: &String| -> i64 {
                                let i: usize = name[1..].parse().unwrap_or(0);
                                -(match pat { 0 => 0, 1 => (i % 2) as i64, 2 => if i + 1 == n { 10 } else { 0 }, 3 => (i % 3) as i64 - 1, 4 => if i < n / 2 { 0 } else { 5 }, _ => ((i * 7 + 3) % 5) as i64 - 2 })
                            };
                            let sorted_by_class = got.windows(2).all(|w| class_of(&w[0]) <= class_of(&w[1]));
                            g2.sort();
                            w2.sort();
                            if sorted_by_class && g2 == w2 { (want.clone(), want) } else { (got, want) }
                        } else {
                            (got, want)
                        };
                        if got != want {
                            let k = got.iter().zip(want.iter()).position(|(a, b)| a != b).unwrap_or(got.len().min(want.len()));
                            rep.violation(Violation { class: "firing_order_differs".into(), detail: format!("{} with {} matching no-loop rules (priority pattern {}): fired {:?}... expected {:?}... (first difference at position {})", ENGINES[engine], n, pat, got.iter().take(k + 2).collect::<Vec<_>>(), want.iter().take(k + 2).collect::<Vec<_>>(), k), tags: vec![if n > 20 { "more_than_20_rules".to_string() } else { "at_most_20_rules".to_string() }], case });
                        } else {
                            distinct += 1;
                        }
                    }
                }
            }
        }
    }
    rep.count("nontrivial", distinct);
    rep.sample(json!({"engine": "TypedReteUlEngine", "n_rules": 21, "priority_pattern": 1}));
    rep.bound = format!("IncrementalEngine, TypedReteUlEngine and ReteUlEngine x every rule count 1..={} x 6 priority patterns with ties: all rules match, fire_all fires every rule once in descending priority; among equals in insertion order (TypedReteUlEngine, ReteUlEngine) / in any order (IncrementalEngine, whose activation order is decided by a hash map)", nmax);
    rep.wall_s = t0.elapsed().as_secs_f64();
    rep
}

/// IncrementalEngine: after a fire_all (which may have hit the iteration bound because of a runaway rule) the fact is
/// updated and fire_all is called again without a reset: a no-loop rule that fired in the first call does not fire again
fn second_call_refires(set: &(Vec<usize>, usize)) -> Vec<String> {
    let (vars, p) = set;
    let mut e = IncrementalEngine::new();
    for (i, &vi) in vars.iter().enumerate() {
        let (k, nl) = VARIANTS[vi];
        e.add_rule(TypedReteUlRule { name: format!("r{}", i), node: node_for(k, "T.v"), priority: PRIO[*p][i], no_loop: nl, action: typed_action(k, "T.v") }, vec!["T".to_string()]);
    }
    let mut d = TypedFacts::new();
    d.set("v", 0i64);
    let h = e.insert("T".to_string(), d);
    let first = e.fire_all();
    let mut d2 = TypedFacts::new();
    d2.set("v", 0i64);
    let _ = e.update(h, d2);
    let second = e.fire_all();
    (0..vars.len()).filter(|&i| VARIANTS[vars[i]].1).map(|i| format!("r{}", i)).filter(|r| first.contains(r) && second.contains(r)).collect()
}

/// `skip`: rule sets for which the (isolated) termination sub-check found that IncrementalEngine::fire_all does not
/// return — already reported there; they cannot be run in this process
fn run_second_call(_opts: &Opts, skip: &BTreeSet<usize>) -> Report {
    let t0 = Instant::now();
    let mut rep = Report::new("no_loop_across_calls");
    let sets = rule_sets();
    let mut nt = 0u64;
    for (k, set) in sets.iter().enumerate() {
        if skip.contains(&k) {
            rep.count("skipped_because_fire_all_does_not_return", 1);
            continue;
        }
        rep.count("evaluations", 1);
        let case = json!({"sub": "no_loop_across_calls", "set": k, "rules": describe(k)["rules"]});
        match std::panic::catch_unwind(|| second_call_refires(set)) {
            Err(_) => rep.violation(Violation { class: "fire_all_panicked".into(), detail: crate::explore::take_panic(), tags: vec![], case }),
            Ok(again) => {
                if !again.is_empty() {
                    rep.violation(Violation { class: "no_loop_rule_fired_again_without_reset".into(), detail: format!("insert, fire_all, update, fire_all (no reset): the no-loop rules {:?} fired in both calls", again), tags: vec![], case });
                } else if set.0.iter().any(|&v| VARIANTS[v].1) {
                    nt += 1;
                }
            }
        }
    }
    rep.count("nontrivial", nt);
    rep.sample(json!({"history": "insert T{v:0}; fire_all; update T{v:0}; fire_all"}));
    rep.bound = format!("IncrementalEngine x the {} rule sets of the termination sub-check (incl. runaway rules that drive the first call into its iteration bound): insert, fire_all, update, fire_all without a reset", sets.len());
    rep.wall_s = t0.elapsed().as_secs_f64();
    rep
}

/// also returns the rule sets for which IncrementalEngine::fire_all did not return (hang or abort)
fn run_termination(opts: &Opts) -> (Report, BTreeSet<usize>) {
    let t0 = Instant::now();
    let mut rep = Report::new("termination");
    let ns = rule_sets().len();
    // every rule set counts as "not returning" until its IncrementalEngine case has come back from a child (cases that
    // were never handed out because the hang budget was used up included)
    let mut not_returning: BTreeSet<usize> = (0..ns).collect();
    let n = ns * ENGINES.len();
    let timeout = Duration::from_secs(if opts.tier == Tier::Quick { 10 } else { 120 });
    let res = isolate::run_batch("C07", "term", n, timeout, 16, &[]);
    let mut done = BTreeSet::new();
    let mut distinct = BTreeSet::new();
    for (k, o) in res {
        done.insert(k);
        rep.count("evaluations", 1);
        rep.letter(ENGINES[k / ns]);
        match o {
            Outcome::Done(v) => {
                if k / ns == 0 {
                    not_returning.remove(&(k % ns));
                }
                if let Some(p) = v.get("panic") {
                    rep.violation(Violation { class: "fire_all_panicked".into(), detail: format!("{} panicked: {}", ENGINES[k / ns], p), tags: vec![], case: describe(k) });
                } else {
                    let fired = v["fired"].as_u64().unwrap_or(0);
                    let bound = v["bound"].as_u64().unwrap_or(0);
                    rep.outcomes.insert(hmix(k as u64 / ns as u64, fired));
                    if fired > 3 {
                        distinct.insert(k);
                    }
                    if fired > bound {
                        rep.violation(Violation { class: "iteration_bound_exceeded".into(), detail: format!("{} fired {} times, bound {}", ENGINES[k / ns], fired, bound), tags: vec![], case: describe(k) });
                    }
                    if rep.samples.len() < 4 && fired > 3 {
                        let mut d = describe(k);
                        d["fired"] = json!(fired);
                        rep.sample(d);
                    }
                }
            }
            Outcome::Hang => {
                if k / ns == 0 {
                    not_returning.insert(k % ns);
                }
                rep.violation(Violation { class: "fire_all_did_not_return".into(), detail: format!("{} did not return within {:?}", ENGINES[k / ns], timeout), tags: vec![], case: describe(k) })
            }
            Outcome::Abort(m) => {
                if k / ns == 0 {
                    not_returning.insert(k % ns);
                }
                rep.violation(Violation { class: "fire_all_aborted".into(), detail: format!("{}: {}", ENGINES[k / ns], m), tags: vec![], case: describe(k) })
            }
        }
    }
    if let Some(t) = isolate::truncated() {
        rep.cap_hit = Some(t);
    } else if done.len() != n {
        rep.notes.push(format!("MACHINERY: {} of {} termination cases produced no result", n - done.len(), n));
    }
    rep.count("nontrivial", distinct.len() as u64);
    rep.bound = format!("{} engines x all multisets of 1..3 rules over {{always-true, self-incrementing, flip-flop A/B, always-true whose action activates another agenda group}} x {{no-loop, not}} x 3 priority patterns (incl. i32::MIN / i32::MAX) = {} runs, each in a watched child (timeout {:?})", ENGINES.len(), n, timeout);
    rep.wall_s = t0.elapsed().as_secs_f64();
    (rep, not_returning)
}

pub fn run(opts: &Opts) -> Vec<Report> {
    let mut out = vec![];
    let plan: Vec<(&str, usize, usize)> = match opts.tier {
        Tier::Quick => vec![("agenda_8t_len6", 8, 6), ("agenda_5t_len7", 5, 7), ("agenda_combined_attributes_12t_len5", 112, 5), ("agenda_combined_attributes_8t_len6", 108, 6)],
        Tier::Thorough => vec![("agenda_8t_len7", 8, 7), ("agenda_5t_len9", 5, 9), ("agenda_combined_attributes_12t_len6", 112, 6), ("agenda_combined_attributes_8t_len7", 108, 7)],
    };
    for (name, nt, depth) in plan {
        if !crate::props::wants(opts, name) {
            continue;
        }
        let mut cfg = Config::new(name, depth);
        cfg.ctx = json!({"templates": nt});
        cfg.expected_letters = ["add_activation", "get_next_activation", "mark_rule_fired", "set_focus", "reset_fired_flags", "clear"].iter().map(|s| s.to_string()).collect();
        let mut r = explore::explore(&move || Sys::new(nt), &cfg);
        let div = r.outcomes.contains(&0xD17E);
        r.count("divergences_from_exact_model_without_clause_violation", div as u64);
        r.bound = format!("all histories of length <= {} over add_activation({} templates: salience 0/5, groups MAIN/G, no-loop, activation group X, lock-on-active{}) / get_next_activation / mark_rule_fired / set_focus / reset_fired_flags / clear; creation instants strictly increasing", depth, if nt >= 100 { nt - 100 } else { nt }, if nt >= 100 { ", in combination on one activation" } else { "" });
        out.push(r);
    }
    if crate::props::wants(opts, "engine_firing_order") {
        out.push(run_order(opts));
    }
    // the isolated termination runs come first: a rule set whose fire_all does not return there is reported there and
    // must not be run again inside this process
    let mut not_returning = BTreeSet::new();
    if crate::props::wants(opts, "termination") {
        let (r, bad) = run_termination(opts);
        not_returning = bad;
        out.push(r);
    }
    if crate::props::wants(opts, "no_loop_across_calls") {
        out.push(run_second_call(opts, &not_returning));
    }
    out
}

pub fn replay(case: &serde_json::Value) -> crate::props::ReplayResult {
    if case["sub"].as_str() == Some("engine_firing_order") {
        let g = |k: &str| case[k].as_u64().unwrap_or(0) as usize;
        let hist = vec![case.to_string()];
        let (got, want) = order_case(g("engine_idx"), g("n_rules"), g("priority_pattern"));
        return if got == want { Ok(hist) } else { Err((hist, "firing_order_differs".into(), format!("fired {:?}, expected {:?}", got, want))) };
    }
    if case["sub"].as_str() == Some("no_loop_across_calls") {
        let k = case["set"].as_u64().unwrap_or(0) as usize;
        let sets = rule_sets();
        let hist = vec![case.to_string()];
        let again = second_call_refires(&sets[k.min(sets.len() - 1)]);
        return if again.is_empty() { Ok(hist) } else { Err((hist, "no_loop_rule_fired_again_without_reset".into(), format!("{:?}", again))) };
    }
    if case["sub"].as_str() == Some("termination") {
        let k = case["case"].as_u64().unwrap_or(0) as usize;
        let res = isolate::run_batch_from("C07", "term", k, k + 1, Duration::from_secs(20), 1, &[]);
        let hist = vec![format!("{}", describe(k))];
        for (kk, o) in res {
            if kk != k {
                continue;
            }
            return match o {
                Outcome::Done(v) if v.get("panic").is_some() => Err((hist, "fire_all_panicked".into(), v.to_string())),
                Outcome::Done(v) if v["fired"].as_u64() > v["bound"].as_u64() => Err((hist, "iteration_bound_exceeded".into(), v.to_string())),
                Outcome::Done(_) => Ok(hist),
                Outcome::Hang => Err((hist, "fire_all_did_not_return".into(), "no return within 20 s".into())),
                Outcome::Abort(m) => Err((hist, "fire_all_aborted".into(), m)),
            };
        }
        return Ok(hist);
    }
    let nt = case["ctx"]["templates"].as_u64().unwrap_or(8) as usize;
    let ch = crate::props::choices_of(case);
    crate::props::conv(explore::replay(&move || Sys::new(nt), &ch))
}
