//! LS — lock-step explicit-state explorer over the *real* objects.
//!
//! A `System` bundles a real object of the crate with a boring reference model. The explorer
//! enumerates every history (sequence of letters from `enabled()`) up to a depth, applies each letter to
//! both, and lets the system compare them (`step`). Objects that cannot be cloned are rebuilt by
//! replaying the history on a fresh object. A history is never extended past its first mismatch.
use crate::report::{hmix, Report, Violation};
use serde_json::{json, Value};
use std::collections::HashSet;
use std::panic::{catch_unwind, AssertUnwindSafe};
use std::sync::atomic::{AtomicUsize, Ordering};
use std::sync::Mutex;
use std::time::Instant;

pub struct Mismatch {
    pub class: String,
    pub detail: String,
    pub tags: Vec<String>,
}

impl Mismatch {
    pub fn new(class: &str, detail: String) -> Self {
        Mismatch {
            class: class.to_string(),
            detail,
            tags: vec![],
        }
    }
    pub fn tagged(class: &str, detail: String, tags: &[&str]) -> Self {
        Mismatch {
            class: class.to_string(),
            detail,
            tags: tags.iter().map(|s| s.to_string()).collect(),
        }
    }
}

pub trait System: Sized {
    type Op: Clone + std::fmt::Debug;
    /// small finite menu, simplest first; must be a deterministic function of the history
    fn enabled(&self) -> Vec<Self::Op>;
    /// apply to implementation and model, compare, check invariants; Ok(observation hash)
    fn step(&mut self, op: &Self::Op) -> Result<u64, Mismatch>;
    /// letter name for usage accounting
    fn kind(op: &Self::Op) -> String;
    /// deviation cost of a letter (0 = benign default)
    fn cost(_op: &Self::Op) -> u32 {
        0
    }
    /// hash of the reference-model state (counted as `states`)
    fn model_state(&self) -> u64;
    /// exact fingerprint of implementation-observable ⊕ model state; `Some` permits de-duplication
    fn fingerprint(&self) -> Option<u64> {
        None
    }
    fn try_clone(&self) -> Option<Self> {
        None
    }
    /// feature tags of the history so far (for known-finding attribution), computed by the model
    fn history_tags(&self) -> Vec<String> {
        vec![]
    }
}

pub struct Config {
    pub sub: String,
    pub ctx: Value,
    pub max_depth: usize,
    pub max_cost: u32,
    pub split_depth: usize,
    pub threads: usize,
    pub dedup: bool,
    pub deadline: Option<Instant>,
    pub expected_letters: Vec<String>,
    /// record (instead of aborting on) a prefix step that fails when a history is re-executed
    pub tolerate_divergent_replay: bool,
}

impl Config {
    pub fn new(sub: &str, max_depth: usize) -> Self {
        Config {
            sub: sub.to_string(),
            ctx: Value::Null,
            max_depth,
            max_cost: u32::MAX,
            split_depth: 2,
            threads: crate::threads(),
            dedup: false,
            deadline: None,
            expected_letters: vec![],
            tolerate_divergent_replay: true,
        }
    }
}

thread_local! {
    pub static LAST_PANIC: std::cell::RefCell<Option<String>> = const { std::cell::RefCell::new(None) };
}

pub fn take_panic() -> String {
    LAST_PANIC
        .with(|p| p.borrow_mut().take())
        .unwrap_or_else(|| "panic (no message captured)".to_string())
}

struct Shared<'a, S: System> {
    fresh: &'a (dyn Fn() -> S + Sync),
    cfg: &'a Config,
    seen: Vec<Mutex<HashSet<(u64, u16)>>>,
}

/// Rebuild the state reached by `choices` on a fresh system. A failing step here means the
/// harness does not own all nondeterminism: that is a machinery error, never a verdict.
pub fn rebuild<S: System>(fresh: &(dyn Fn() -> S + Sync), choices: &[u16]) -> S {
    match rebuild_checked(fresh, choices) {
        Ok(s) => s,
        Err((d, m)) => machinery(&format!("divergent replay: prefix step {} of {:?} failed on rebuild: {} {}", d, choices, m.class, m.detail)),
    }
}

/// As `rebuild`, but hands a failing prefix step back to the caller (used for the one subject whose
/// behaviour may legitimately depend on hash-map iteration order; see Config::tolerate_divergent_replay).
pub fn rebuild_checked<S: System>(fresh: &(dyn Fn() -> S + Sync), choices: &[u16]) -> Result<S, (usize, Mismatch)> {
    let mut s = fresh();
    for (d, &c) in choices.iter().enumerate() {
        let ops = s.enabled();
        let Some(op) = ops.get(c as usize) else {
            return Err((d, Mismatch::new("divergent_replay", format!("choice {} out of range at depth {} ({} enabled)", c, d, ops.len()))));
        };
        let r = catch_unwind(AssertUnwindSafe(|| s.step(op)));
        let r = match r {
            Ok(r) => r,
            Err(_) => Err(Mismatch::new("panic", take_panic())),
        };
        if let Err(m) = r {
            return Err((d, m));
        }
    }
    Ok(s)
}

pub fn machinery(msg: &str) -> ! {
    eprintln!("MACHINERY: {}", msg);
    std::process::exit(2);
}

/// Render the letters of a history (by replaying it; the last letter may be the violating one).
pub fn render<S: System>(fresh: &(dyn Fn() -> S + Sync), choices: &[u16]) -> Vec<String> {
    let mut s = fresh();
    let mut out = Vec::new();
    for &c in choices {
        let ops = s.enabled();
        let Some(op) = ops.get(c as usize) else { break };
        out.push(format!("{:?}", op));
        let r = catch_unwind(AssertUnwindSafe(|| s.step(op)));
        match r {
            Ok(Ok(_)) => {}
            _ => break,
        }
    }
    out
}

impl<'a, S: System> Shared<'a, S> {
    fn dfs(&self, sys: S, choices: &mut Vec<u16>, path_hash: u64, cost: u32, rep: &mut Report, frontier: Option<(&mut Vec<(Vec<u16>, u64, u32)>, usize)>) {
        let cfg = self.cfg;
        let depth = choices.len();
        if depth >= cfg.max_depth {
            self.leaf(choices, rep);
            return;
        }
        if let Some((fr, split)) = frontier {
            if depth >= split {
                fr.push((choices.clone(), path_hash, cost));
                return;
            }
            self.expand(sys, choices, path_hash, cost, rep, Some((fr, split)));
        } else {
            self.expand(sys, choices, path_hash, cost, rep, None);
        }
    }

    /// a prefix that passed once failed when re-executed: a real execution that breaks the oracle
    /// (behaviour depends on something outside the history, e.g. hash-map iteration order)
    fn record_divergent(&self, choices: &[u16], d: usize, m: Mismatch, rep: &mut Report) {
        let ch: Vec<u16> = choices[..=d].to_vec();
        let ops_r = render(self.fresh, &ch);
        let mut tags = m.tags.clone();
        tags.push("outcome_depends_on_hash_order".to_string());
        rep.count("divergent_replays", 1);
        rep.violation(Violation { class: m.class, detail: m.detail, tags, case: json!({"sub": self.cfg.sub, "ctx": self.cfg.ctx, "choices": ch, "history": ops_r, "repeat": 40}) });
    }

    fn leaf(&self, choices: &[u16], rep: &mut Report) {
        rep.count("traces", 1);
        if rep.samples.len() < 2 {
            rep.samples.push(json!({"sub": self.cfg.sub, "ctx": self.cfg.ctx, "history": render(self.fresh, choices)}));
        }
    }

    fn expand(&self, sys: S, choices: &mut Vec<u16>, path_hash: u64, cost: u32, rep: &mut Report, mut frontier: Option<(&mut Vec<(Vec<u16>, u64, u32)>, usize)>) {
        let cfg = self.cfg;
        let depth = choices.len();
        if let Some(dl) = cfg.deadline {
            if Instant::now() > dl {
                rep.cap_hit = Some(format!("wall-clock deadline reached at depth {}", depth));
                return;
            }
        }
        let ops = sys.enabled();
        let eligible: Vec<usize> = (0..ops.len()).filter(|&i| cost.saturating_add(S::cost(&ops[i])) <= cfg.max_cost).collect();
        if eligible.is_empty() {
            self.leaf(choices, rep);
            return;
        }
        let last = *eligible.last().unwrap();
        let mut parent = Some(sys);
        for &i in &eligible {
            let op = &ops[i];
            let c = cost + S::cost(op);
            let mut child = if i == last {
                parent.take().unwrap()
            } else {
                match parent.as_ref().unwrap().try_clone() {
                    Some(s) => s,
                    None => match rebuild_checked(self.fresh, choices) {
                        Ok(s) => {
                            // The rebuilt state must offer the same letter at this index: a subject whose
                            // property-irrelevant choices depend on hash-map order (which of several matching facts a
                            // rule retracts) can reach a different state on re-execution, where `op` is not enabled.
                            let menu = s.enabled();
                            if menu.len() != ops.len() || menu.get(i).map(|o| format!("{:?}", o)) != Some(format!("{:?}", op)) {
                                rep.count("rebuilt_state_offers_other_menu_skipped", 1);
                                continue;
                            }
                            s
                        }
                        Err((d, m)) => {
                            if !cfg.tolerate_divergent_replay {
                                machinery(&format!("divergent replay: prefix step {} of {:?} failed on rebuild: {} {}", d, choices, m.class, m.detail));
                            }
                            self.record_divergent(choices, d, m, rep);
                            continue;
                        }
                    },
                }
            };
            rep.letter(&S::kind(op));
            rep.count("transitions", 1);
            let ph = hmix(path_hash, i as u64 + 1);
            let res = catch_unwind(AssertUnwindSafe(|| child.step(op)));
            let res = match res {
                Ok(r) => r,
                Err(_) => Err(Mismatch::new("panic", take_panic())),
            };
            match res {
                Err(m) => {
                    let mut ch = choices.clone();
                    ch.push(i as u16);
                    let mut ops_r = render(self.fresh, choices);
                    ops_r.push(format!("{:?}", op));
                    rep.violation(Violation {
                        class: m.class,
                        detail: m.detail,
                        tags: m.tags,
                        case: json!({"sub": cfg.sub, "ctx": cfg.ctx, "choices": ch, "history": ops_r}),
                    });
                    continue;
                }
                Ok(obs) => {
                    rep.digest = rep.digest.wrapping_add(hmix(ph, obs));
                    rep.outcomes.insert(obs);
                }
            }
            choices.push(i as u16);
            rep.states.insert(child.model_state());
            rep.max_depth = rep.max_depth.max(depth + 1);
            let mut go = true;
            if cfg.dedup {
                if let Some(fp) = child.fingerprint() {
                    let rem = (cfg.max_depth - depth - 1) as u16;
                    let shard = (fp as usize) % self.seen.len();
                    let mut g = self.seen[shard].lock().unwrap();
                    if !g.insert((fp, rem)) {
                        go = false;
                    }
                }
            }
            if go {
                match frontier.as_mut() {
                    Some((fr, split)) => self.dfs(child, choices, ph, c, rep, Some((&mut **fr, *split))),
                    None => self.dfs(child, choices, ph, c, rep, None),
                }
            } else {
                rep.count("dedup_hits", 1);
            }
            choices.pop();
        }
    }
}

/// Exhaustive depth-bounded exploration. Returns one merged report.
pub fn explore<S: System>(fresh: &(dyn Fn() -> S + Sync), cfg: &Config) -> Report {
    let t0 = Instant::now();
    let shared = Shared {
        fresh,
        cfg,
        seen: (0..64).map(|_| Mutex::new(HashSet::new())).collect(),
    };
    let mut rep = Report::new(&cfg.sub);
    let mut frontier: Vec<(Vec<u16>, u64, u32)> = Vec::new();
    {
        let root = fresh();
        rep.states.insert(root.model_state());
        drop(root);
        // grow the frontier level by level until there is enough work to share out
        frontier.push((vec![], 0x1234_5678, 0));
        let target = 24 * cfg.threads.max(1);
        let mut depth = 0;
        while !frontier.is_empty() && frontier.len() < target && depth < cfg.max_depth {
            let mut next_level = Vec::new();
            for (ch, ph, cost) in frontier.drain(..) {
                let sys = match rebuild_checked(fresh, &ch) {
                    Ok(s) => s,
                    Err((d, m)) => {
                        if !cfg.tolerate_divergent_replay {
                            machinery(&format!("divergent replay: prefix step {} of {:?} failed on rebuild: {} {}", d, ch, m.class, m.detail));
                        }
                        shared.record_divergent(&ch, d, m, &mut rep);
                        continue;
                    }
                };
                let mut choices = ch.clone();
                shared.expand(sys, &mut choices, ph, cost, &mut rep, Some((&mut next_level, depth + 1)));
            }
            frontier = next_level;
            depth += 1;
        }
        if depth >= cfg.max_depth {
            // everything was covered while growing the frontier; remaining nodes are leaves
            for (ch, _, _) in frontier.drain(..) {
                shared.leaf(&ch, &mut rep);
            }
        }
    }
    if !frontier.is_empty() {
        let next = AtomicUsize::new(0);
        let nthreads = cfg.threads.max(1).min(frontier.len());
        let reports: Vec<Report> = std::thread::scope(|sc| {
            let mut hs = Vec::new();
            for _ in 0..nthreads {
                let shared = &shared;
                let frontier = &frontier;
                let next = &next;
                hs.push(
                    std::thread::Builder::new()
                        .stack_size(64 << 20)
                        .spawn_scoped(sc, move || {
                            let mut r = Report::new(&shared.cfg.sub);
                            loop {
                                let k = next.fetch_add(1, Ordering::SeqCst);
                                if k >= frontier.len() {
                                    break;
                                }
                                let (ch, ph, cost) = &frontier[k];
                                let sys = match rebuild_checked(shared.fresh, ch) {
                                    Ok(s) => s,
                                    Err((d, m)) => {
                                        if !shared.cfg.tolerate_divergent_replay {
                                            machinery(&format!("divergent replay: prefix step {} of {:?} failed on rebuild: {} {}", d, ch, m.class, m.detail));
                                        }
                                        shared.record_divergent(ch, d, m, &mut r);
                                        continue;
                                    }
                                };
                                let mut choices = ch.clone();
                                shared.expand(sys, &mut choices, *ph, *cost, &mut r, None);
                            }
                            r
                        })
                        .unwrap(),
                );
            }
            hs.into_iter().map(|h| h.join().unwrap_or_else(|_| machinery("explorer thread panicked"))).collect()
        });
        for r in reports {
            rep.merge(r);
        }
    }
    for l in &cfg.expected_letters {
        if !rep.letters.contains_key(l) {
            rep.notes.push(format!("VACUITY: letter '{}' never enabled", l));
        }
    }
    rep.bound = format!("all histories of depth <= {} (deviation cost <= {}), dedup={}", cfg.max_depth, if cfg.max_cost == u32::MAX { "inf".to_string() } else { cfg.max_cost.to_string() }, cfg.dedup);
    rep.wall_s = t0.elapsed().as_secs_f64();
    rep
}

/// Breadth-first search with exact de-duplication until no new state appears (or `max_depth`).
/// Requires `fingerprint()` to be `Some` everywhere.
pub fn closure<S: System>(fresh: &(dyn Fn() -> S + Sync), cfg: &Config) -> Report {
    let t0 = Instant::now();
    let mut rep = Report::new(&cfg.sub);
    let mut seen: HashSet<u64> = HashSet::new();
    let root = fresh();
    seen.insert(root.fingerprint().unwrap_or_else(|| machinery("closure needs fingerprints")));
    rep.states.insert(root.model_state());
    let mut level: Vec<Vec<u16>> = vec![vec![]];
    let mut depth = 0;
    let mut closed = false;
    let mut deepest: Vec<u16> = vec![];
    while depth < cfg.max_depth {
        if level.is_empty() {
            closed = true;
            break;
        }
        // expand one level in parallel
        let next = AtomicUsize::new(0);
        let nthreads = cfg.threads.max(1).min(level.len());
        let results: Vec<(Report, Vec<(u64, Vec<u16>, u64)>)> = std::thread::scope(|sc| {
            let mut hs = Vec::new();
            for _ in 0..nthreads {
                let level = &level;
                let next = &next;
                hs.push(sc.spawn(move || {
                    let mut r = Report::new(&cfg.sub);
                    let mut out = Vec::new();
                    loop {
                        let k = next.fetch_add(1, Ordering::SeqCst);
                        if k >= level.len() {
                            break;
                        }
                        let choices = &level[k];
                        let divergent = |r: &mut Report, d: usize, m: Mismatch| {
                            let chd: Vec<u16> = choices[..=d].to_vec();
                            let ops_r = render(fresh, &chd);
                            let mut tags = m.tags.clone();
                            tags.push("outcome_depends_on_hash_order".to_string());
                            r.count("divergent_replays", 1);
                            r.violation(Violation { class: m.class, detail: m.detail, tags, case: json!({"sub": cfg.sub, "ctx": cfg.ctx, "choices": chd, "history": ops_r, "repeat": 40}) });
                        };
                        let parent = match rebuild_checked(fresh, choices) {
                            Ok(s) => s,
                            Err((d, m)) => {
                                if !cfg.tolerate_divergent_replay {
                                    machinery(&format!("divergent replay: prefix step {} of {:?} failed on rebuild: {} {}", d, choices, m.class, m.detail));
                                }
                                divergent(&mut r, d, m);
                                continue;
                            }
                        };
                        r.count("traces", 1);
                        let ops = parent.enabled();
                        for (i, op) in ops.iter().enumerate() {
                            let mut child = match parent.try_clone() {
                                Some(s) => s,
                                None => match rebuild_checked(fresh, choices) {
                                    Ok(s) => s,
                                    Err((d, m)) => {
                                        if !cfg.tolerate_divergent_replay {
                                            machinery(&format!("divergent replay: prefix step {} of {:?} failed on rebuild: {} {}", d, choices, m.class, m.detail));
                                        }
                                        divergent(&mut r, d, m);
                                        break;
                                    }
                                },
                            };
                            r.letter(&S::kind(op));
                            r.count("transitions", 1);
                            let res = catch_unwind(AssertUnwindSafe(|| child.step(op)));
                            let res = match res {
                                Ok(x) => x,
                                Err(_) => Err(Mismatch::new("panic", take_panic())),
                            };
                            let mut ch = choices.clone();
                            ch.push(i as u16);
                            match res {
                                Err(m) => {
                                    let ops_r = render(fresh, &ch);
                                    r.violation(Violation {
                                        class: m.class,
                                        detail: m.detail,
                                        tags: m.tags,
                                        case: json!({"sub": cfg.sub, "ctx": cfg.ctx, "choices": ch, "history": ops_r}),
                                    });
                                }
                                Ok(obs) => {
                                    r.outcomes.insert(obs);
                                    let fp = child.fingerprint().unwrap_or_else(|| machinery("closure needs fingerprints"));
                                    out.push((fp, ch, child.model_state()));
                                }
                            }
                        }
                    }
                    (r, out)
                }));
            }
            hs.into_iter().map(|h| h.join().unwrap_or_else(|_| machinery("explorer thread panicked"))).collect()
        });
        let mut cand: Vec<(u64, Vec<u16>, u64)> = Vec::new();
        for (r, out) in results {
            rep.merge(r);
            cand.extend(out);
        }
        // deterministic order: by choice vector
        cand.sort_by(|a, b| a.1.cmp(&b.1));
        let mut nextlevel = Vec::new();
        for (fp, ch, ms) in cand {
            rep.states.insert(ms);
            if seen.insert(fp) {
                nextlevel.push(ch);
            }
        }
        depth += 1;
        if !nextlevel.is_empty() {
            rep.max_depth = depth;
            deepest = nextlevel[0].clone();
        }
        level = nextlevel;
        if let Some(dl) = cfg.deadline {
            if Instant::now() > dl {
                rep.cap_hit = Some(format!("wall-clock deadline reached at BFS depth {}", depth));
                break;
            }
        }
    }
    if level.is_empty() {
        closed = true;
    }
    rep.count("fingerprints", seen.len() as u64);
    rep.count("closed", closed as u64);
    if !closed && rep.cap_hit.is_none() {
        rep.notes.push(format!("state graph not closed at depth {} ({} frontier states)", depth, level.len()));
    }
    rep.samples.push(json!({"sub": cfg.sub, "deepest_new_state_history": render(fresh, &deepest)}));
    for l in &cfg.expected_letters {
        if !rep.letters.contains_key(l) {
            rep.notes.push(format!("VACUITY: letter '{}' never enabled", l));
        }
    }
    rep.bound = if closed {
        format!("complete reachable state graph (closed at BFS depth {}), every state x every letter", depth)
    } else {
        format!("BFS with exact de-duplication to depth {}", depth)
    };
    rep.wall_s = t0.elapsed().as_secs_f64();
    rep
}

/// The rendered operations of the case being replayed (set by props::replay from the case file): a replay step whose
/// menu entry renders differently belongs to another state and is not executed.
pub static EXPECTED_HISTORY: Mutex<Option<Vec<String>>> = Mutex::new(None);

/// Replay a recorded case (list of choices) twice; both runs must give the same verdict.
/// Replay up to `n` times; the first failing run is the verdict (for outcomes that depend on hash order).
pub fn replay_repeated<S: System>(fresh: &(dyn Fn() -> S + Sync), choices: &[u16], n: usize) -> Result<Vec<String>, (Vec<String>, Mismatch)> {
    let mut last = Ok(vec![]);
    let expected: Option<Vec<String>> = EXPECTED_HISTORY.lock().unwrap().clone();
    for _ in 0..n.max(1) {
        let mut s = fresh();
        let mut hist = Vec::new();
        let mut failed = None;
        for (d, &c) in choices.iter().enumerate() {
            let ops = s.enabled();
            let Some(op) = ops.get(c as usize) else { break };
            if let Some(e) = expected.as_ref().and_then(|e| e.get(d)) {
                if *e != format!("{:?}", op) {
                    // this run reached a state with another menu (hash-order dependent subject): not the recorded case
                    break;
                }
            }
            hist.push(format!("{:?}", op));
            let r = catch_unwind(AssertUnwindSafe(|| s.step(op)));
            let r = match r {
                Ok(x) => x,
                Err(_) => Err(Mismatch::new("panic", take_panic())),
            };
            if let Err(m) = r {
                failed = Some(m);
                break;
            }
        }
        match failed {
            Some(m) => return Err((hist, m)),
            None => last = Ok(hist),
        }
    }
    last
}

pub fn replay<S: System>(fresh: &(dyn Fn() -> S + Sync), choices: &[u16]) -> Result<Vec<String>, (Vec<String>, Mismatch)> {
    // The first failing execution is the verdict: a case recorded from a history whose outcome depends on
    // hash-map iteration order inside the subject (tag outcome_depends_on_hash_order) may pass on some runs.
    replay_repeated(fresh, choices, 40)
}
