//! vcheck — bounded exhaustive checks of rust-rule-engine properties C01..C20.
//! usage: vcheck <Cxx> --tier quick|thorough --out FILE [--replay FILE] [--only SUB]
mod explore;
mod isolate;
mod props;
mod refval;
mod report;
mod util;

use serde_json::{json, Value};
use std::time::Instant;

#[derive(Clone, Copy, PartialEq, Eq, Debug)]
pub enum Tier {
    Quick,
    Thorough,
}

pub fn threads() -> usize {
    std::env::var("VCHECK_THREADS")
        .ok()
        .and_then(|s| s.parse().ok())
        .unwrap_or_else(|| std::thread::available_parallelism().map(|n| n.get()).unwrap_or(4))
}

pub struct Opts {
    pub tier: Tier,
    pub only: Option<String>,
    pub budget_s: f64,
}

fn main() {
    // Subject panics are caught and classified; keep stderr quiet and remember message + location.
    std::panic::set_hook(Box::new(|info| {
        let msg = if let Some(s) = info.payload().downcast_ref::<&str>() {
            s.to_string()
        } else if let Some(s) = info.payload().downcast_ref::<String>() {
            s.clone()
        } else {
            "non-string panic payload".to_string()
        };
        let loc = info
            .location()
            .map(|l| format!("{}:{}", l.file(), l.line()))
            .unwrap_or_default();
        explore::LAST_PANIC.with(|p| *p.borrow_mut() = Some(format!("{} @ {}", msg, loc)));
    }));
    let args: Vec<String> = std::env::args().collect();
    if args.len() < 2 {
        eprintln!("usage: vcheck <Cxx> --tier quick|thorough --out FILE [--replay FILE] [--only SUB]");
        std::process::exit(2);
    }
    let prop = args[1].clone();
    let mut tier = Tier::Quick;
    let mut out: Option<String> = None;
    let mut replay: Option<String> = None;
    let mut only: Option<String> = None;
    let mut budget_s = 0.0;
    let mut child: Option<String> = None;
    let mut i = 2;
    while i < args.len() {
        match args[i].as_str() {
            "--tier" => {
                tier = if args[i + 1] == "thorough" { Tier::Thorough } else { Tier::Quick };
                i += 1;
            }
            "--out" => {
                out = Some(args[i + 1].clone());
                i += 1;
            }
            "--replay" => {
                replay = Some(args[i + 1].clone());
                i += 1;
            }
            "--only" => {
                only = Some(args[i + 1].clone());
                i += 1;
            }
            "--budget" => {
                budget_s = args[i + 1].parse().unwrap_or(0.0);
                i += 1;
            }
            "--child" => {
                child = Some(args[i + 1].clone());
                i += 1;
            }
            _ => {}
        }
        i += 1;
    }
    if let Some(spec) = child {
        // isolated child mode (panic/abort/hang-prone subjects): property specific protocol
        props::child(&prop, &spec);
        return;
    }
    let opts = Opts { tier, only, budget_s };
    let t0 = Instant::now();
    if let Some(path) = replay {
        let text = std::fs::read_to_string(&path).unwrap_or_else(|e| explore::machinery(&format!("cannot read replay file {}: {}", path, e)));
        let v: Value = serde_json::from_str(&text).unwrap_or_else(|e| explore::machinery(&format!("bad replay file: {}", e)));
        let case = v.get("case").cloned().unwrap_or(v.clone());
        let res = props::replay(&prop, &case);
        let j = match res {
            Ok(h) => json!({"property": prop, "replay": path, "violated": false, "trace": h}),
            Err((h, class, detail)) => json!({"property": prop, "replay": path, "violated": true, "class": class, "detail": detail, "trace": h}),
        };
        if let Some(o) = out {
            std::fs::write(o, serde_json::to_string_pretty(&j).unwrap()).unwrap();
        }
        eprintln!("{}", serde_json::to_string_pretty(&j).unwrap());
        std::process::exit(if j["violated"] == json!(true) { 1 } else { 0 });
    }
    let reports = props::run(&prop, &opts);
    let subs: Vec<Value> = reports.iter().map(|r| r.to_json()).collect();
    let j = json!({
        "property": prop,
        "tier": if tier == Tier::Quick { "quick" } else { "thorough" },
        "subs": subs,
        "wall_s": t0.elapsed().as_secs_f64(),
    });
    let text = serde_json::to_string_pretty(&j).unwrap();
    match out {
        Some(o) => std::fs::write(o, text).unwrap(),
        None => eprintln!("{}", text),
    }
}
