#!/usr/bin/env python3
"""Regenerate the at-a-glance table of DESIGN.md (between the AT-A-GLANCE markers) from evidence/*.json and levels.json."""
import json, os, glob
V = os.path.dirname(os.path.dirname(os.path.abspath(__file__)))
lv = json.load(open(os.path.join(V, "levels.json")))
rows = []
for f in sorted(glob.glob(os.path.join(V, "evidence", "C*.json"))):
    e = json.load(open(f))
    pid = e["property_id"]
    c = e["coverage"]
    subs = []
    for name, s in c.get("per_sub", {}).items():
        k = s["counters"]
        if k.get("transitions"):
            n = "%s steps" % f"{k['transitions']:,}".replace(",", " ")
        elif k.get("schedules"):
            n = "%s schedules" % f"{k['schedules']:,}".replace(",", " ")
        else:
            n = "%s cases" % f"{k.get('evaluations', 0):,}".replace(",", " ")
        if k.get("crash_points"):
            n += ", %s crash runs" % f"{k['crash_points']:,}".replace(",", " ")
        subs.append("%s (%s)" % (name, n))
    rows.append("| %s | %s | %s | %s | %.0f s |" % (pid, e["level"], e["tier"], "; ".join(subs), e.get("wall_s", 0) - e.get("build_s", 0)))
t = ["", "| id | level | tier of the committed evidence | sub-checks (size of the exhaustively covered space) | run time |", "|---|---|---|---|---|"] + rows + [""]
p = os.path.join(V, "DESIGN.md")
s = open(p).read()
b, e_ = "<!-- AT-A-GLANCE-BEGIN -->", "<!-- AT-A-GLANCE-END -->"
s = s[: s.index(b) + len(b)] + "\n".join(t) + s[s.index(e_):]
open(p, "w").write(s)
print(len(rows), "rows")
