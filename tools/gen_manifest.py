#!/usr/bin/env python3
"""Regenerate MANIFEST.json from levels.json (claimed checks) + hooks info. Run from /verif."""
import json, subprocess, os
here = os.path.dirname(os.path.dirname(os.path.abspath(__file__)))
levels = json.load(open(os.path.join(here, "levels.json")))
props = [json.loads(l)["id"] for l in open(os.path.join(here, "properties.jsonl"))]
hooks = subprocess.run(["git", "-C", "/repo", "log", "--format=%H %s"], stdout=subprocess.PIPE, text=True).stdout.splitlines()
hook_commits = [l.split()[0] for l in hooks if " verif hook " in " " + l.split(" ", 1)[1] or l.split(" ", 1)[1].startswith("verif hook")]
checks = []
for p in props:
    if p not in levels or not levels[p].get("claimed", True):
        continue
    m = levels[p]
    checks.append({
        "property_id": p,
        "quick_cmd": "./check %s --tier quick" % p,
        "thorough_cmd": "./check %s --tier thorough" % p,
        "evidence_file": "/verif/evidence/%s.json" % p,
        "replay_cmd_template": "./check %s --replay {path}" % p,
        "engine": m.get("engine", "vcheck"),
        "level_claimed": {"category": m["level"], "text": m.get("claim", ""), "design_ref": m.get("design_ref", "DESIGN.md section 5 (%s)" % p)},
        "level_note": m.get("note", "; ".join(m.get("assumptions", []))),
        "technique": m.get("technique", ""),
    })
na = [{"property_id": p, "reason": levels.get(p, {}).get("na_reason", "check not built yet (work in progress; will be claimed)")} for p in props if p not in [c["property_id"] for c in checks]]
man = {
    "version": 1,
    "setup_cmd": "./check --setup",
    "hooks": {
        "guard": "--cfg rre_verif (instrumentation seams), --cfg rre_verif_loom (std::sync -> loom import swap)",
        "enable": "RUSTFLAGS='--cfg rre_verif' (harness) / '--cfg rre_verif --cfg rre_verif_loom' (loom crate), set by ./check; both are rustc cfgs, never cargo features",
        "baseline_off_cmd": "cd /repo && cargo test --workspace --no-fail-fast --offline",
        "source_commits": list(reversed(hook_commits)),
        "add_only": True,
    },
    "engines": [
        {"name": "vcheck", "path": "harness/", "serves_properties": [c["property_id"] for c in checks if c["engine"] == "vcheck"], "kind_free_text": "own explicit-state / small-scope explorer in Rust linked against the real crate (path dependency on /repo, cfg rre_verif); lock-step reference models; every explored trace is an implementation trace"},
        {"name": "loom", "path": "loomcrate/", "serves_properties": [c["property_id"] for c in checks if "loom" in c["engine"]], "kind_free_text": "loom 0.7.2 controlled scheduler on the real knowledge_base.rs / facts.rs / parallel.rs (cfg rre_verif_loom import swap), preemption-bounded exhaustive interleavings"},
    ],
    "checks": checks,
    "notes": "Model-checking family only: bounded exhaustive exploration of the real code (own explorer, loom), fault enumeration via a cfg-guarded crash seam. See DESIGN.md. Known findings: known_findings.json.",
    "not_applicable": na,
}
json.dump(man, open(os.path.join(here, "MANIFEST.json"), "w"), indent=1)
print("claimed:", [c["property_id"] for c in checks])
