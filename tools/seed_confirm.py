#!/usr/bin/env python3
"""Confirm a seeded property-breaking change in a scratch worktree and store it under /verif/seeded/<id>/.

  tools/seed_confirm.py --wt /tmp/mut-C15 --src /tmp/mut-C15/_out/mutant_1 --id C15-remove-stale-index --property C15 \
        --needs "two rules stored, remove one that is not last, then a by-name operation"

Steps (all in the scratch worktree, never in /repo):
  1. clean tree, patch applies;
  2. with the patch: the baseline command (cargo test --workspace --no-fail-fast --offline) passes, and so does the
     all-features suite (reported, not required);
  3. the demonstration (tests/<demo>.rs) FAILS with the patch and PASSES without it.
Only then is seeded/<id>/ written (patch.diff, the demonstration, notes.md if present, meta.json).
"""
import argparse, glob, json, os, re, shutil, subprocess, sys, time

FEATURES = "backward-chaining,streaming"


def sh(cmd, cwd, timeout=3600):
    p = subprocess.run(cmd, cwd=cwd, shell=True, stdout=subprocess.PIPE, stderr=subprocess.STDOUT, text=True,
                       timeout=timeout, env=dict(os.environ, CARGO_NET_OFFLINE="true"))
    return p.returncode, p.stdout


def results(out):
    ok = len(re.findall(r"^test result: ok", out, re.M))
    bad = len(re.findall(r"^test result: FAILED", out, re.M))
    passed = sum(int(x) for x in re.findall(r"^test result: \w+\. (\d+) passed", out, re.M))
    failed = sum(int(x) for x in re.findall(r"^test result: \w+\. \d+ passed; (\d+) failed", out, re.M))
    return {"suites_ok": ok, "suites_failed": bad, "passed": passed, "failed": failed}


def main():
    ap = argparse.ArgumentParser()
    ap.add_argument("--wt", required=True)
    ap.add_argument("--src", required=True)
    ap.add_argument("--id", required=True)
    ap.add_argument("--property", required=True)
    ap.add_argument("--needs", required=True)
    ap.add_argument("--origin", default="independent sub-agent given only the property text and a scratch worktree")
    a = ap.parse_args()
    wt, src = a.wt, a.src
    patch = os.path.join(src, "patch.diff")
    demos = [f for f in glob.glob(os.path.join(src, "*.rs"))]
    assert os.path.exists(patch) and len(demos) == 1, (patch, demos)
    demo = demos[0]
    demo_name = os.path.splitext(os.path.basename(demo))[0]
    log = {}

    rc, _ = sh("git checkout -- . && git status --porcelain -- src tests Cargo.toml", wt)
    # remove leftover demo files of the agent so the baseline run is the repository's own suite
    for f in glob.glob(os.path.join(wt, "tests", "demo_mutant_*.rs")):
        os.remove(f)
    rc, out = sh("git status --porcelain -- src tests Cargo.toml", wt)
    assert out.strip() == "", "worktree not clean: " + out
    rc, out = sh(f"git apply --check {patch}", wt)
    assert rc == 0, "patch does not apply: " + out
    sh(f"git apply {patch}", wt)
    rc, out = sh("git diff --stat -- .", wt)
    log["diffstat"] = out.strip().splitlines()

    t = time.time()
    rc, out = sh("cargo test --workspace --no-fail-fast --offline 2>&1", wt)
    base = results(out)
    base["exit"] = rc
    log["baseline_with_change"] = base
    rc2, out2 = sh(f"cargo test --no-fail-fast --offline --features {FEATURES} 2>&1", wt)
    feat = results(out2)
    feat["exit"] = rc2
    log["all_features_with_change"] = feat
    log["suite_wall_s"] = round(time.time() - t, 1)
    if rc != 0 or base["suites_failed"] or base["failed"]:
        print("REJECT: baseline suite fails with the change", base)
        print("\n".join(l for l in out.splitlines() if "FAILED" in l or "failed" in l)[:3000])
        sh("git checkout -- .", wt)
        sys.exit(1)

    shutil.copy(demo, os.path.join(wt, "tests", demo_name + ".rs"))
    rc, out = sh(f"cargo test --offline --features {FEATURES} --test {demo_name} 2>&1", wt)
    with_change = results(out)
    with_change["exit"] = rc
    log["demo_with_change"] = with_change
    sh("git checkout -- .", wt)
    rc_clean, out_clean = sh(f"cargo test --offline --features {FEATURES} --test {demo_name} 2>&1", wt)
    without = results(out_clean)
    without["exit"] = rc_clean
    log["demo_without_change"] = without
    os.remove(os.path.join(wt, "tests", demo_name + ".rs"))

    fails_with = rc != 0 and with_change["failed"] > 0
    passes_without = rc_clean == 0 and without["failed"] == 0 and without["passed"] > 0
    if not (fails_with and passes_without):
        print("REJECT: demonstration does not separate", log)
        print(out[-2000:])
        print(out_clean[-2000:])
        sys.exit(1)

    dst = os.path.join(os.path.dirname(os.path.dirname(os.path.abspath(__file__))), "seeded", a.id)
    os.makedirs(dst, exist_ok=True)
    shutil.copy(patch, os.path.join(dst, "patch.diff"))
    shutil.copy(demo, os.path.join(dst, demo_name + ".rs"))
    if os.path.exists(os.path.join(src, "notes.md")):
        shutil.copy(os.path.join(src, "notes.md"), os.path.join(dst, "notes.md"))
    rc, head = sh("git rev-parse HEAD", wt)
    meta = {
        "id": a.id,
        "property": a.property,
        "origin": a.origin,
        "base_commit": head.strip(),
        "files": ["patch.diff", demo_name + ".rs"] + (["notes.md"] if os.path.exists(os.path.join(dst, "notes.md")) else []),
        "needs_to_manifest": a.needs,
        "confirmed": {
            "where": "scratch git worktree of /repo under /tmp (removed afterwards)",
            "commands": [
                "git apply patch.diff",
                "cargo test --workspace --no-fail-fast --offline            # baseline suite, must pass",
                f"cargo test --no-fail-fast --offline --features {FEATURES}   # reported",
                f"cargo test --offline --features {FEATURES} --test {demo_name}   # must FAIL with the change",
                "git checkout -- . ; same demo command                      # must PASS without it",
            ],
            "results": log,
        },
    }
    json.dump(meta, open(os.path.join(dst, "meta.json"), "w"), indent=1)
    print("KEPT", a.id, json.dumps(log))


if __name__ == "__main__":
    main()
