#!/usr/bin/env python3
"""Write seeded/INDEX.md (one row per seeded change) from meta.json + detection.json."""
import json, os

VERIF = os.path.dirname(os.path.dirname(os.path.abspath(__file__)))
rows = []
for d in sorted(os.listdir(os.path.join(VERIF, "seeded"))):
    p = os.path.join(VERIF, "seeded", d)
    if not os.path.exists(os.path.join(p, "meta.json")):
        continue
    m = json.load(open(os.path.join(p, "meta.json")))
    det = json.load(open(os.path.join(p, "detection.json"))) if os.path.exists(os.path.join(p, "detection.json")) else {"history": []}
    files = ", ".join(sorted(set(l.split("|")[0].strip() for l in m["confirmed"]["results"].get("diffstat", []) if "|" in l)))
    last_quick = [h for h in det["history"] if h["tier"] == "quick"]
    verdict, classes, wall = "not run", "", ""
    if last_quick:
        h = last_quick[-1]
        # a later run against several checks counts if any of them reports the change
        for cand in reversed(last_quick):
            if cand["detected"]:
                h = cand
                break
        verdict = "reported" if h["detected"] else "MISSED"
        r = next((x for x in h["runs"] if x["exit"] == 1 and x["violation_lines"] > 0), h["runs"][0])
        other = r["check"].split()[1] if r["check"].split()[1] != m["property"] else None
        fr = r.get("first_replay") or {}
        classes = fr.get("class") or ""
        if fr.get("sub"):
            classes = "%s: %s" % (fr["sub"], classes)
        if other:
            classes = "[%s] %s" % (other, classes)
        wall = "%ss" % r.get("wall_s")
    first_missed = any((not hh["detected"]) for hh in det["history"]) and verdict == "reported"
    rows.append((d, m["property"], files, m["needs_to_manifest"], verdict + (" (after strengthening the check; first run missed it)" if first_missed else ""), classes, wall))

with open(os.path.join(VERIF, "seeded", "INDEX.md"), "w") as f:
    f.write("# Seeded property-breaking changes\n\nEach directory holds `patch.diff` (apply with `git -C /repo apply`), the demonstration test, the author's notes,\n`meta.json` (property, what the change needs to manifest, how it was confirmed) and `detection.json` (what the\nregistered quick check printed with the change applied). Regenerate with `tools/seeded_index.py`; re-run with `tools/run_seeded.py --all`.\n\n")
    f.write("| id | property | file(s) | needs to manifest | quick check | first replay (sub-check: oracle clause) | wall |\n|---|---|---|---|---|---|---|\n")
    for r in rows:
        f.write("| " + " | ".join(str(x).replace("|", "/").replace("\n", " ") for x in r) + " |\n")
    n = len(rows)
    k = sum(1 for r in rows if r[4].startswith("reported"))
    f.write("\n%d of %d seeded changes are reported by the quick tier of their property's check.\n" % (k, n))
# compact table inside DESIGN.md
dp = os.path.join(VERIF, "DESIGN.md")
ds = open(dp).read()
b, e = "<!-- SEEDED-TABLE-BEGIN -->", "<!-- SEEDED-TABLE-END -->"
if b in ds and e in ds:
    t = ["", "| seeded change | file | reported by (sub-check: oracle clause) |", "|---|---|---|"]
    for r in rows:
        t.append("| %s | %s | %s%s |" % (r[0], r[2].replace("src/", ""), r[5].replace("|", "/") if r[4].startswith("reported") else "**MISSED**", " †" if "first run missed" in r[4] else ""))
    t.append("")
    t.append("† reported after the strengthening listed above. %d of %d reported by the quick tier." % (sum(1 for r in rows if r[4].startswith("reported")), len(rows)))
    t.append("")
    ds = ds[: ds.index(b) + len(b)] + "\n".join(t) + ds[ds.index(e):]
    open(dp, "w").write(ds)
print("rows", len(rows), "reported", sum(1 for r in rows if r[4].startswith("reported")))
