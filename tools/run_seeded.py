#!/usr/bin/env python3
"""Run registered checks against seeded property-breaking changes.

  tools/run_seeded.py <seeded-id>... [--tier quick|thorough] [--props C15,C16]   (default: the change's own property)
  tools/run_seeded.py --all

For each id: require a clean /repo working tree, `git -C /repo apply seeded/<id>/patch.diff`, run `./check <prop> --tier T`
exactly as registered in MANIFEST.json, record exit code / VIOLATION lines / first replay in seeded/<id>/detection.json,
then undo the change (`git -C /repo apply -R`, `git -C /repo checkout -- .`) and verify the tree is clean again.
Evidence files written during these runs are restored afterwards (evidence must describe the unchanged tree).
"""
import argparse, json, os, re, shutil, subprocess, sys, tempfile, time

VERIF = os.path.dirname(os.path.dirname(os.path.abspath(__file__)))
REPO = os.environ.get("VERIF_REPO", "/repo")


def sh(cmd, cwd=VERIF, timeout=7200):
    p = subprocess.run(cmd, cwd=cwd, shell=True, stdout=subprocess.PIPE, stderr=subprocess.STDOUT, text=True, timeout=timeout)
    return p.returncode, p.stdout


def clean():
    rc, out = sh("git status --porcelain --untracked-files=no", REPO)
    return out.strip() == ""


def main():
    ap = argparse.ArgumentParser()
    ap.add_argument("ids", nargs="*")
    ap.add_argument("--all", action="store_true")
    ap.add_argument("--tier", default="quick")
    ap.add_argument("--props", default="")
    a = ap.parse_args()
    ids = a.ids
    if a.all:
        ids = sorted(d for d in os.listdir(os.path.join(VERIF, "seeded")) if os.path.exists(os.path.join(VERIF, "seeded", d, "patch.diff")))
    summary = []
    for sid in ids:
        d = os.path.join(VERIF, "seeded", sid)
        meta = json.load(open(os.path.join(d, "meta.json")))
        props = [p for p in a.props.split(",") if p] or [meta["property"]]
        assert clean(), "/repo working tree is not clean"
        patch = os.path.join(d, "patch.diff")
        rc, out = sh(f"git apply {patch}", REPO)
        assert rc == 0, "patch does not apply to /repo: " + out
        keep = tempfile.mkdtemp(prefix="rre-seeded-ev-")
        runs = []
        try:
            for p in props:
                ev = os.path.join(VERIF, "evidence", p + ".json")
                if os.path.exists(ev):
                    shutil.copy(ev, os.path.join(keep, p + ".json"))
                t = time.time()
                rc, out = sh(f"./check {p} --tier {a.tier}")
                lines = [l for l in out.splitlines() if l.startswith(("VIOLATION", "KNOWN-FINDING", "MACHINERY", "OK"))]
                viol = [l for l in lines if l.startswith("VIOLATION")]
                first = None
                m = re.search(r"replay=(\S+)", viol[0]) if viol else None
                if m and os.path.exists(os.path.join(VERIF, m.group(1)) if not os.path.isabs(m.group(1)) else m.group(1)):
                    path = m.group(1) if os.path.isabs(m.group(1)) else os.path.join(VERIF, m.group(1))
                    try:
                        r = json.load(open(path))
                        first = {k: r.get(k) for k in ("sub", "class", "detail", "tags", "rendered") if k in r}
                        if "case" in r and isinstance(r["case"], dict):
                            first["rendered"] = r["case"].get("rendered", r["case"].get("text"))
                    except Exception as e:  # noqa
                        first = {"unreadable": str(e)}
                classes = sorted(set(re.findall(r"class=(\S+)", "\n".join(viol))))
                runs.append({"check": f"./check {p} --tier {a.tier}", "exit": rc, "violation_lines": len(viol),
                             "classes": classes, "other_lines": [l for l in lines if not l.startswith("VIOLATION")][:6],
                             "first_replay": first, "wall_s": round(time.time() - t, 1)})
                if os.path.exists(os.path.join(keep, p + ".json")):
                    shutil.copy(os.path.join(keep, p + ".json"), ev)
        finally:
            sh(f"git apply -R {patch}", REPO)
            sh("git checkout -- .", REPO)
            shutil.rmtree(keep, ignore_errors=True)
            shutil.rmtree(os.path.join(VERIF, "replays"), ignore_errors=True)
        assert clean(), "/repo not clean after undo"
        detected = any(r["exit"] == 1 and r["violation_lines"] > 0 for r in runs)
        rc, head = sh("git rev-parse --short HEAD", REPO)
        rc, vh = sh("git rev-parse --short HEAD", VERIF)
        det_path = os.path.join(d, "detection.json")
        hist = []
        if os.path.exists(det_path):
            try:
                hist = json.load(open(det_path)).get("history", [])
            except Exception:
                hist = []
        entry = {"tier": a.tier, "detected": detected, "runs": runs, "repo_head": head.strip(), "verif_head": vh.strip()}
        hist.append(entry)  # every run is kept: a change that was missed before a check was strengthened stays on record
        json.dump({"id": sid, "property": meta["property"], "detected_by_quick": any(h["detected"] for h in hist if h["tier"] == "quick"),
                   "history": hist}, open(det_path, "w"), indent=1)
        summary.append((sid, detected, [(r["check"], r["exit"], r["classes"][:4]) for r in runs]))
        print(("DETECTED " if detected else "MISSED   ") + sid, [(r["exit"], r["violation_lines"], r["classes"][:4], r["other_lines"][:2]) for r in runs], flush=True)
    missed = [s for s in summary if not s[1]]
    print(f"{len(summary) - len(missed)}/{len(summary)} detected")
    sys.exit(0 if not missed else 3)


if __name__ == "__main__":
    main()
